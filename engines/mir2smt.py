"""E2: symbolic execution of rustc MIR (textual `-Zunpretty=mir` dump, regenerated from the scratch
copy of /repo on every run) into SMT (z3 bit-vectors + IEEE floating point).

Path-by-path execution: every `switchInt` on a non-concrete value forks, infeasible branches are
pruned by the solver, every MIR `assert`/panic call yields a *panic outcome* with its path
condition, every `return` of the entry function yields a *return outcome* (path condition,
returned value tree).  The property modules turn outcomes into solver queries.

Machine integers are bit-vectors of their width (wrap/cast/shift semantics are exact); reference
("mathematical") values in the property modules use wider bit-vectors.  f64 is (_ FloatingPoint 11 53)
with RNE.  Anything without a model makes the path `unsupported` -> the obligation is inconclusive.
"""
import os
import re
import time

import z3

# ---------------------------------------------------------------------------------------------
# parsing

INT_TYPES = {"i8": (8, True), "i16": (16, True), "i32": (32, True), "i64": (64, True), "i128": (128, True),
             "isize": (64, True), "u8": (8, False), "u16": (16, False), "u32": (32, False), "u64": (64, False),
             "u128": (128, False), "usize": (64, False), "char": (32, False)}


def split_top(s, sep=","):
    """split on sep at nesting depth 0 of () [] <> {} and outside string literals"""
    out, depth, cur, i, n = [], 0, [], 0, len(s)
    instr = False
    while i < n:
        c = s[i]
        if instr:
            cur.append(c)
            if c == "\\":
                cur.append(s[i + 1])
                i += 1
            elif c == '"':
                instr = False
        elif c == '"':
            instr = True
            cur.append(c)
        elif c in "([{<":
            if c == "<" and i > 0 and s[i - 1] == "-":   # "->"? not an opener (it's '>' that matters)
                cur.append(c)
            else:
                depth += 1
                cur.append(c)
        elif c in ")]}":
            depth -= 1
            cur.append(c)
        elif c == ">":
            if i > 0 and s[i - 1] in "-=":
                cur.append(c)
            else:
                depth -= 1
                cur.append(c)
        elif c == sep and depth == 0:
            out.append("".join(cur).strip())
            cur = []
        else:
            cur.append(c)
        i += 1
    t = "".join(cur).strip()
    if t:
        out.append(t)
    return out


class MirFn:
    def __init__(self, name, header):
        self.name = name
        self.header = header
        self.params = []      # [(local, type)]
        self.ret = "()"
        self.types = {}       # local -> type
        self.blocks = {}      # bbN -> [stmt strings..., terminator string]
        self.cleanup = set()

    @property
    def short(self):
        return self.name.rsplit("::", 1)[-1]


FN_RE = re.compile(r"^fn (.+?)\((.*)\)(?: -> (.+))? \{$")


class _Hdr:
    def __init__(self, name, params, ret):
        self.g = (None, name, params, ret)

    def group(self, i):
        return self.g[i]


def parse_fn_header(ln):
    """`fn NAME(PARAMS) -> RET {` with balanced parentheses (the return type may be a tuple)"""
    if not (ln.startswith("fn ") and ln.endswith(" {")):
        return None
    body = ln[3:-2]
    k = -1
    for mm in re.finditer(r"\((?=\)|_\d+: )", body):
        k = mm.start()
        break
    if k < 0:
        return None
    depth = 0
    end = -1
    for i in range(k, len(body)):
        c = body[i]
        if c == "(":
            depth += 1
        elif c == ")":
            depth -= 1
            if depth == 0:
                end = i
                break
    if end < 0:
        return None
    rest = body[end + 1:].strip()
    ret = None
    if rest.startswith("->"):
        ret = rest[2:].strip()
    elif rest:
        return None
    return _Hdr(body[:k], body[k + 1:end], ret)


def parse_mir(text, want=None):
    """Parse all functions (or only those whose name contains one of `want`) of a MIR dump."""
    fns = {}
    lines = text.split("\n")
    i, n = 0, len(lines)
    while i < n:
        ln = lines[i]
        if ln.startswith("fn ") and ln.endswith("{"):
            m = parse_fn_header(ln)
            if not m:
                i += 1
                continue
            name = m.group(1)
            j = i + 1
            # find end of function: a line that is exactly "}"
            while j < n and lines[j] != "}":
                j += 1
            if want is None or any(w in name for w in want):
                f = MirFn(name, ln)
                for a in split_top(m.group(2)):
                    mm = re.match(r"(_\d+): (.*)$", a)
                    if mm:
                        f.params.append((mm.group(1), mm.group(2)))
                        f.types[mm.group(1)] = mm.group(2)
                f.ret = m.group(3) or "()"
                cur = None
                for k in range(i + 1, j):
                    s = lines[k].strip()
                    mm = re.match(r"let (?:mut )?(_\d+): (.*);$", s)
                    if mm:
                        f.types[mm.group(1)] = mm.group(2)
                        continue
                    mm = re.match(r"(bb\d+)( \(cleanup\))?: \{$", s)
                    if mm:
                        cur = mm.group(1)
                        f.blocks[cur] = []
                        if mm.group(2):
                            f.cleanup.add(cur)
                        continue
                    if s == "}":
                        if cur is not None and not lines[k].startswith("        "):
                            cur = None
                        continue
                    if cur is not None and s and not s.startswith("//"):
                        # strip trailing comments
                        f.blocks[cur].append(s)
                fns.setdefault(name, f)
            i = j + 1
        else:
            i += 1
    return fns


# ---------------------------------------------------------------------------------------------
# values

class Unsupported(Exception):
    pass


class PathEnd(Exception):
    pass


class Scalar:
    __slots__ = ("t", "ty")

    def __init__(self, t, ty):
        self.t = t      # z3 BitVecRef | BoolRef | FPRef
        self.ty = ty

    def __repr__(self):
        return "Scalar(%s:%s)" % (self.t, self.ty)


class Agg:
    """tuple / struct / array: positional fields"""
    __slots__ = ("ty", "fields")

    def __init__(self, ty, fields):
        self.ty = ty
        self.fields = list(fields)

    def __repr__(self):
        return "Agg(%s,%r)" % (self.ty, self.fields)


class Enum:
    """discr: z3 BV64 term; payload[(variant_name)] = list of field values (lazily created)"""
    __slots__ = ("ty", "discr", "payload", "uid")
    _n = 0

    def __init__(self, ty, discr, payload=None):
        self.ty = ty
        self.discr = discr
        self.payload = payload if payload is not None else {}
        Enum._n += 1
        self.uid = Enum._n

    def __repr__(self):
        return "Enum(%s,%s,%r)" % (self.ty, self.discr, self.payload)


class Ref:
    __slots__ = ("frame", "local", "proj", "mut")

    def __init__(self, frame, local, proj, mut=False):
        self.frame = frame
        self.local = local
        self.proj = tuple(proj)
        self.mut = mut

    def __repr__(self):
        return "Ref(f%s,%s,%r)" % (self.frame, self.local, self.proj)


class Lazy:
    """a struct whose fields are created on first access from the type annotation of the projecting place
    (scalars become fresh solver variables, Vec<u8> an empty-or-given VecU8, other structs nested Lazy values)"""
    __slots__ = ("ty", "fields", "name")

    def __init__(self, ty, name, fields=None):
        self.ty, self.name = ty, name
        self.fields = dict(fields or {})

    def __repr__(self):
        return "Lazy(%s,%r)" % (self.ty, self.fields)


class VecU8:
    """Vec<u8> of concrete length with symbolic elements (immutable: operations build new values)"""
    __slots__ = ("items",)

    def __init__(self, items=()):
        self.items = tuple(items)

    def __repr__(self):
        return "VecU8(%d)" % len(self.items)


class Opaque:
    __slots__ = ("ty", "tag")

    def __init__(self, ty, tag=""):
        self.ty = ty
        self.tag = tag

    def __repr__(self):
        return "Opaque(%s)" % self.ty


class Uninit:
    def __repr__(self):
        return "Uninit"


UNINIT = Uninit()
F64 = z3.Float64()
RNE = z3.RNE()


def bv(width, v):
    return z3.BitVecVal(v, width)


def is_concrete(t):
    t = z3.simplify(t)
    return z3.is_bv_value(t) or z3.is_true(t) or z3.is_false(t)


class Outcome:
    def __init__(self, kind, pc, value=None, msg="", where=""):
        self.kind = kind     # "return" | "panic" | "unsupported"
        self.pc = pc         # list of z3 Bool
        self.value = value
        self.msg = msg
        self.where = where


class Frame:
    __slots__ = ("fn", "locals", "bb", "idx", "dest", "ret_bb", "id", "post")

    def __init__(self, fn, fid):
        self.post = None
        self.fn = fn
        self.locals = {}
        self.bb = "bb0"
        self.idx = 0
        self.dest = None
        self.ret_bb = None
        self.id = fid


class State:
    def __init__(self):
        self.frames = []
        self.pc = []

    def fork(self):
        s = State()
        for f in self.frames:
            g = Frame(f.fn, f.id)
            g.locals = dict(f.locals)
            g.bb, g.idx, g.dest, g.ret_bb, g.post = f.bb, f.idx, f.dest, f.ret_bb, f.post
            s.frames.append(g)
        s.pc = list(self.pc)
        return s


# ---------------------------------------------------------------------------------------------

class Interp:
    def __init__(self, fns, enums=None, overflow_checks=True, max_steps=20000, max_paths=4000, timeout_s=120):
        self.fns = fns
        self.enums = enums or {}        # type name (last segment) -> [variant names in order]
        self.by_short = {}
        for f in fns.values():
            self.by_short.setdefault(f.short, []).append(f)
        self.solver = z3.Solver()
        self.solver.set("timeout", 20000)
        self.outcomes = []
        self.max_steps = max_steps
        self.max_paths = max_paths
        self.steps = 0
        self.models_used = set()
        self.fns_executed = set()
        self.fresh_n = 0
        self.timeout_s = timeout_s
        self.t0 = time.time()
        self.queries = 0
        self.solver_s = 0.0
        self.models = dict(STD_MODELS)
        self.overflow_checks = overflow_checks
        self.opaque_calls = []
        self.struct_fields = {}

    # ---- helpers -----------------------------------------------------------------------
    def fresh(self, ty, hint="v"):
        self.fresh_n += 1
        return self.sym(ty, "%s%d" % (hint, self.fresh_n))

    def sym(self, ty, name):
        ty = ty.strip()
        if ty in INT_TYPES:
            return Scalar(z3.BitVec(name, INT_TYPES[ty][0]), ty)
        if ty == "bool":
            return Scalar(z3.Bool(name), "bool")
        if ty == "f64":
            return Scalar(z3.FP(name, F64), "f64")
        if ty.startswith("&"):
            return Opaque(ty, name)
        base = type_base(ty)
        if base in self.enums:
            return Enum(ty, z3.BitVec(name + ".d", 64))
        if base in self.struct_fields:
            return Agg(ty, [self.sym(t, "%s.%d" % (name, i)) for i, t in enumerate(self.struct_fields[base])])
        if ty.startswith("(") and ty.endswith(")"):
            parts = split_top(ty[1:-1])
            return Agg(ty, [self.sym(t, "%s.%d" % (name, i)) for i, t in enumerate(parts)])
        return Opaque(ty, name)

    def feasible(self, pc, extra=None):
        self.queries += 1
        t = time.time()
        self.solver.push()
        cs = list(pc) + ([extra] if extra is not None else [])
        for c in cs:
            self.solver.add(c)
        r = self.solver.check()
        if r == z3.sat:
            defs = mul_defs_for(cs)
            if defs:
                # feasibility with abstract products is an over-approximation: confirm cheaply by trying a
                # few concrete witnesses, otherwise keep the branch (exploring an infeasible branch is sound:
                # its outcomes carry their path condition and are re-decided by the property queries)
                pass
        self.solver.pop()
        self.solver_s += time.time() - t
        if r == z3.unknown:
            raise Unsupported("solver returned unknown on a branch feasibility query")
        return r == z3.sat

    # ---- entry ------------------------------------------------------------------------------
    def run(self, fn, args, assumptions=(), extra_locals=None):
        """Execute `fn` on argument values; returns list of Outcome.  extra_locals: additional locals of the entry
        frame (the referents of reference arguments: pass Ref(0, name, ()) as the argument)."""
        self.outcomes = []
        self.t0 = time.time()
        st = State()
        st.pc = list(assumptions)
        fr = Frame(fn, 0)
        for k, v in (extra_locals or {}).items():
            fr.locals[k] = v
        for (loc, _), a in zip(fn.params, args):
            fr.locals[loc] = a
        st.frames.append(fr)
        self.nframes = 1
        work = [st]
        while work:
            if len(self.outcomes) > self.max_paths:
                self.outcomes.append(Outcome("unsupported", [], msg="path bound %d exceeded" % self.max_paths))
                break
            s = work.pop()
            try:
                self.exec_path(s, work)
            except Unsupported as e:
                fr = s.frames[-1] if s.frames else None
                self.outcomes.append(Outcome("unsupported", s.pc, msg=str(e),
                                             where="%s %s" % (fr.fn.short, fr.bb) if fr else ""))
            except PathEnd:
                pass
        return self.outcomes

    def exec_path(self, s, work):
        while True:
            self.steps += 1
            if self.steps > self.max_steps:
                raise Unsupported("step bound %d exceeded (loop with symbolic bound?)" % self.max_steps)
            if time.time() - self.t0 > self.timeout_s:
                raise Unsupported("interpreter time budget exceeded")
            fr = s.frames[-1]
            self.fns_executed.add(fr.fn.name)
            blk = fr.fn.blocks.get(fr.bb)
            if blk is None:
                raise Unsupported("missing block " + fr.bb)
            if fr.idx >= len(blk):
                raise Unsupported("fell off block " + fr.bb)
            stmt = blk[fr.idx]
            fr.idx += 1
            self.exec_stmt(s, fr, stmt, work)

    # ---- places -----------------------------------------------------------------------------
    def parse_place(self, txt):
        """returns (local, [proj...]); proj items: ('field', idx, ty) ('deref',) ('downcast', variant) ('index', operand) ('constindex', i)"""
        txt = txt.strip()
        if re.fullmatch(r"_\d+", txt):
            return txt, []
        if txt.startswith("(*") and txt.endswith(")"):
            l, p = self.parse_place(txt[2:-1])
            return l, p + [("deref",)]
        if txt.startswith("(") and txt.endswith(")"):
            inner = txt[1:-1]
            # (PLACE as Variant)
            m = re.match(r"^(.*) as ([A-Za-z_][A-Za-z0-9_]*)$", inner)
            if m and balanced(m.group(1)):
                l, p = self.parse_place(m.group(1))
                return l, p + [("downcast", m.group(2))]
            # (PLACE.N: TYPE)
            k = find_field_colon(inner)
            if k is not None:
                lhs, ty = inner[:k], inner[k + 1:].strip()
                d = lhs.rfind(".")
                l, p = self.parse_place(lhs[:d])
                return l, p + [("field", int(lhs[d + 1:]), ty)]
        m = re.match(r"^(.*)\[(_\d+)\]$", txt)
        if m:
            l, p = self.parse_place(m.group(1))
            return l, p + [("index", m.group(2))]
        m = re.match(r"^(.*)\[(\d+) of (\d+)\]$", txt)
        if m:
            l, p = self.parse_place(m.group(1))
            return l, p + [("constindex", int(m.group(2)))]
        raise Unsupported("place syntax: " + txt)

    def frame_by_id(self, s, fid):
        for f in s.frames:
            if f.id == fid:
                return f
        raise Unsupported("dangling reference into a popped frame")

    def resolve(self, s, fr, local, proj):
        """follow derefs so that the result is (frame, local, proj') without leading ref hops"""
        cur_fr, cur_local, cur_proj = fr, local, []
        for p in proj:
            if p[0] == "deref":
                v = self.load_raw(s, cur_fr, cur_local, cur_proj)
                if isinstance(v, Ref):
                    cur_fr, cur_local, cur_proj = self.frame_by_id(s, v.frame), v.local, list(v.proj)
                elif isinstance(v, Opaque):
                    # pointee of an opaque reference: an opaque value living in a hidden local of this frame
                    self.fresh_n += 1
                    hid = "__opaque%d" % self.fresh_n
                    cur_fr.locals[hid] = Opaque(re.sub(r"^&(?:'\w+ )?(?:mut )?", "", v.ty), v.tag + ".*")
                    cur_local, cur_proj = hid, []
                elif isinstance(v, Agg) and v.ty.startswith("Box"):
                    cur_proj = cur_proj + [("field", 0, "")]
                else:
                    raise Unsupported("deref of non-reference %r" % (v,))
            else:
                cur_proj = cur_proj + [p]
        return cur_fr, cur_local, cur_proj

    def load_raw(self, s, fr, local, proj):
        v = fr.locals.get(local, UNINIT)
        for p in proj:
            v = self.project(s, v, p, fr)
        return v

    def project(self, s, v, p, fr):
        if p[0] == "field":
            if isinstance(v, Agg):
                if p[1] >= len(v.fields):
                    raise Unsupported("field %d of %s" % (p[1], v.ty))
                return v.fields[p[1]]
            if isinstance(v, tuple) and v and v[0] == "variant":
                enum, var = v[1], v[2]
                pl = enum.payload.setdefault(var, {})
                if p[1] not in pl:
                    pl[p[1]] = self.sym(p[2], "e%d.%s.%d" % (enum.uid, var, p[1]))
                return pl[p[1]]
            if isinstance(v, Lazy):
                if p[1] not in v.fields:
                    fty = (p[2] or "").strip()
                    nm = "%s.%d" % (v.name, p[1])
                    if re.fullmatch(r"(std::vec::)?Vec<u8>", fty):
                        v.fields[p[1]] = VecU8(())
                    elif fty in INT_TYPES or fty in ("bool", "f64"):
                        v.fields[p[1]] = self.sym(fty, nm)
                    elif type_base(fty) in self.enums:
                        v.fields[p[1]] = self.sym(fty, nm)
                    else:
                        v.fields[p[1]] = Lazy(fty, nm)
                return v.fields[p[1]]
            if isinstance(v, Opaque):
                return Opaque(p[2], v.tag + ".%d" % p[1])
            raise Unsupported("field of %r" % (v,))
        if p[0] == "vecidx":
            if isinstance(v, VecU8) and 0 <= p[1] < len(v.items):
                return v.items[p[1]]
            raise Unsupported("vecidx of %r" % (v,))
        if p[0] == "downcast":
            if isinstance(v, Enum):
                return ("variant", v, p[1])
            raise Unsupported("downcast of %r" % (v,))
        if p[0] == "constindex":
            if isinstance(v, Agg):
                return v.fields[p[1]]
            raise Unsupported("constindex of %r" % (v,))
        if p[0] == "index":
            if isinstance(v, Agg):
                iv = fr.locals.get(p[1])
                if isinstance(iv, Scalar):
                    t = z3.simplify(iv.t)
                    if z3.is_bv_value(t):
                        return v.fields[t.as_long()]
                    # symbolic index into array of scalars: ite chain
                    if all(isinstance(x, Scalar) for x in v.fields):
                        res = v.fields[-1].t
                        for k in range(len(v.fields) - 2, -1, -1):
                            res = z3.If(iv.t == k, v.fields[k].t, res)
                        return Scalar(res, v.fields[0].ty)
            raise Unsupported("index of %r" % (v,))
        raise Unsupported("projection %r" % (p,))

    def load(self, s, fr, place_txt):
        local, proj = self.parse_place(place_txt)
        f2, l2, p2 = self.resolve(s, fr, local, proj)
        v = self.load_raw(s, f2, l2, p2)
        if isinstance(v, tuple):
            raise Unsupported("load of bare variant projection")
        return v

    def store(self, s, fr, place_txt, val):
        local, proj = self.parse_place(place_txt)
        f2, l2, p2 = self.resolve(s, fr, local, proj)
        if not p2:
            f2.locals[l2] = val
            return
        f2.locals[l2] = self.updated(s, f2, f2.locals.get(l2, UNINIT), p2, val)

    def updated(self, s, fr, v, proj, val):
        p = proj[0]
        rest = proj[1:]
        if p[0] == "field" and isinstance(v, Agg):
            nf = list(v.fields)
            while len(nf) <= p[1]:
                nf.append(UNINIT)
            nf[p[1]] = val if not rest else self.updated(s, fr, nf[p[1]], rest, val)
            return Agg(v.ty, nf)
        if p[0] == "field" and isinstance(v, Lazy):
            nf = dict(v.fields)
            cur = nf.get(p[1], UNINIT)
            if rest and cur is UNINIT:
                cur = self.project(s, v, p, fr)
                nf = dict(v.fields)
            nf[p[1]] = val if not rest else self.updated(s, fr, cur, rest, val)
            return Lazy(v.ty, v.name, nf)
        if p[0] == "vecidx" and isinstance(v, VecU8) and not rest:
            it = list(v.items)
            it[p[1]] = val
            return VecU8(it)
        if p[0] == "field" and v is UNINIT:
            nf = [UNINIT] * (p[1] + 1)
            nf[p[1]] = val if not rest else self.updated(s, fr, UNINIT, rest, val)
            return Agg("?", nf)
        if p[0] == "downcast" and isinstance(v, Enum) and rest and rest[0][0] == "field":
            var = p[1]
            pl = {k: dict(d) for k, d in v.payload.items()}
            d = pl.setdefault(var, {})
            idx = rest[0][1]
            d[idx] = val if len(rest) == 1 else self.updated(s, fr, d.get(idx, UNINIT), rest[1:], val)
            e = Enum(v.ty, v.discr, pl)
            return e
        raise Unsupported("store through %r into %r" % (p, v))

    # ---- operands ---------------------------------------------------------------------------
    def operand(self, s, fr, txt, ty_hint=None):
        txt = txt.strip()
        for pre in ("no_retag ",):
            if txt.startswith(pre):
                txt = txt[len(pre):]
        if txt.startswith("copy ") or txt.startswith("move "):
            return self.load(s, fr, txt[5:])
        if txt.startswith("const "):
            return self.const(txt[6:].strip(), ty_hint)
        raise Unsupported("operand syntax: " + txt)

    def const(self, c, ty_hint=None):
        if c == "true":
            return Scalar(z3.BoolVal(True), "bool")
        if c == "false":
            return Scalar(z3.BoolVal(False), "bool")
        m = re.fullmatch(r"(-?\d+)_(i8|i16|i32|i64|i128|isize|u8|u16|u32|u64|u128|usize)", c)
        if m:
            w = INT_TYPES[m.group(2)][0]
            return Scalar(bv(w, int(m.group(1))), m.group(2))
        m = re.fullmatch(r"(i8|i16|i32|i64|isize|u8|u16|u32|u64|usize)::(MIN|MAX)", c)
        if m:
            w, sg = INT_TYPES[m.group(1)]
            if m.group(2) == "MIN":
                val = -(1 << (w - 1)) if sg else 0
            else:
                val = (1 << (w - 1)) - 1 if sg else (1 << w) - 1
            return Scalar(bv(w, val), m.group(1))
        m = re.fullmatch(r"(-?[0-9.]+(?:E[+-]?\d+)?)f64", c)
        if m:
            return Scalar(z3.FPVal(float(m.group(1)), F64), "f64")
        if c in ("f64::NAN", "f64::INFINITY", "f64::NEG_INFINITY", "f64::MAX", "f64::MIN"):
            import sys
            val = {"f64::NAN": float("nan"), "f64::INFINITY": float("inf"), "f64::NEG_INFINITY": float("-inf"),
                   "f64::MAX": sys.float_info.max, "f64::MIN": -sys.float_info.max}[c]
            return Scalar(z3.FPVal(val, F64), "f64")
        m = re.fullmatch(r"'(.)'", c)
        if m:
            return Scalar(bv(32, ord(m.group(1))), "char")
        m = re.fullmatch(r"'\\u\{([0-9a-fA-F]+)\}'", c)
        if m:
            return Scalar(bv(32, int(m.group(1), 16)), "char")
        if c == "()":
            return Agg("()", [])
        if c.startswith('"') or c.startswith('b"'):
            return Opaque("&str", c)
        # unit-like enum constants e.g. `const Ordering::Less` are printed as aggregates normally
        m = re.fullmatch(r"([A-Za-z_][\w:<>, ]*)::([A-Z][A-Za-z0-9_]*)", c)
        if m:
            base = type_base(m.group(1))
            if base in self.enums and m.group(2) in self.enums[base]:
                return Enum(m.group(1), bv(64, self.enum_index(base, m.group(2))))
        return Opaque(ty_hint or "?", "const " + c)

    # ---- rvalues ----------------------------------------------------------------------------
    def rvalue(self, s, fr, txt, dest_ty):
        txt = txt.strip()
        # references
        m = re.match(r"^&(mut |raw const |raw mut )?(.*)$", txt)
        if m and not txt.startswith("&&"):
            local, proj = self.parse_place(m.group(2))
            f2, l2, p2 = self.resolve(s, fr, local, proj)
            return Ref(f2.id, l2, p2, mut=bool(m.group(1)) and "mut" in m.group(1))
        if txt.startswith("discriminant("):
            v = self.load(s, fr, txt[len("discriminant("):-1])
            if isinstance(v, Enum):
                return Scalar(v.discr, "isize")
            raise Unsupported("discriminant of %r" % (v,))
        m = re.match(r"^(\w+)\((.*)\)$", txt)
        if m and m.group(1) in BINOPS:
            a, b = split_top(m.group(2))
            return self.binop(m.group(1), self.operand(s, fr, a), self.operand(s, fr, b))
        if m and m.group(1) in ("Not", "Neg"):
            return self.unop(m.group(1), self.operand(s, fr, m.group(2)))
        if m and m.group(1) == "CopyForDeref":
            return self.load(s, fr, m.group(2))
        if m and m.group(1) == "Len":
            v = self.load(s, fr, m.group(2))
            if isinstance(v, Agg):
                return Scalar(bv(64, len(v.fields)), "usize")
            raise Unsupported("Len of %r" % (v,))
        # casts
        m = re.match(r"^(.*) as (.*) \((\w+)(?:\(.*\))?\)$", txt)
        if m and (m.group(1).startswith(("copy ", "move ", "const "))):
            return self.cast(self.operand(s, fr, m.group(1)), m.group(2).strip(), m.group(3))
        if txt.startswith(("copy ", "move ", "const ", "no_retag ")):
            return self.operand(s, fr, txt, dest_ty)
        # aggregates
        if txt.startswith("(") and txt.endswith(")"):
            return Agg(dest_ty, [self.operand(s, fr, x) for x in split_top(txt[1:-1])])
        if txt.startswith("[") and txt.endswith("]"):
            inner = txt[1:-1]
            parts = split_top(inner, ";")
            if len(parts) == 2:
                n = self.const(parts[1].replace("const ", "")) if "const" in parts[1] else None
                cnt = int(re.sub(r"_usize$", "", parts[1].replace("const ", "").strip()))
                v = self.operand(s, fr, parts[0])
                return Agg(dest_ty, [v] * cnt)
            return Agg(dest_ty, [self.operand(s, fr, x) for x in split_top(inner)])
        m = re.match(r"^\{closure@[^}]*\}(?: \{(.*)\})?$", txt)
        if m:
            caps = split_top(m.group(1)) if m.group(1) else []
            return Agg(dest_ty, [self.operand(s, fr, x.split(":", 1)[1]) for x in caps])
        # Path::Variant(args) / Path(args) / Path { f: v } / Path::Variant
        m = re.match(r"^([A-Za-z_<][^({]*?)(?:\((.*)\)| \{(.*)\})?$", txt)
        if m:
            path = m.group(1).strip()
            args = m.group(2)
            named = m.group(3)
            segs = split_path(path)
            last = segs[-1]
            owner = type_base("::".join(segs[:-1])) if len(segs) > 1 else None
            if owner in self.enums and last in self.enums[owner]:
                vals = {}
                if args is not None:
                    for i, x in enumerate(split_top(args)):
                        vals[i] = self.operand(s, fr, x)
                elif named is not None:
                    for i, x in enumerate(split_top(named)):
                        vals[i] = self.operand(s, fr, x.split(":", 1)[1])
                return Enum(dest_ty, bv(64, self.enum_index(owner, last)), {last: vals})
            if args is not None:
                return Agg(dest_ty, [self.operand(s, fr, x) for x in split_top(args)])
            if named is not None:
                return Agg(dest_ty, [self.operand(s, fr, x.split(":", 1)[1]) for x in split_top(named)])
        raise Unsupported("rvalue syntax: " + txt[:120])

    def enum_index(self, base, variant):
        v = self.enums[base]
        if isinstance(v, dict):
            return v[variant]
        return v.index(variant)

    def binop(self, op, a, b):
        if not isinstance(a, Scalar) or not isinstance(b, Scalar):
            raise Unsupported("binop %s on non-scalars %r %r" % (op, a, b))
        ty = a.ty
        if ty == "f64":
            x, y = a.t, b.t
            if op == "Add":
                return Scalar(z3.fpAdd(RNE, x, y), "f64")
            if op == "Sub":
                return Scalar(z3.fpSub(RNE, x, y), "f64")
            if op == "Mul":
                return Scalar(z3.fpMul(RNE, x, y), "f64")
            if op == "Div":
                return Scalar(z3.fpDiv(RNE, x, y), "f64")
            if op == "Rem":
                self.models_used.add("f64 % f64 -> uninterpreted fmod")
                return Scalar(FMOD(x, y), "f64")
            cmp = {"Eq": z3.fpEQ, "Ne": z3.fpNEQ, "Lt": z3.fpLT, "Le": z3.fpLEQ, "Gt": z3.fpGT, "Ge": z3.fpGEQ}
            if op in cmp:
                return Scalar(cmp[op](x, y), "bool")
            raise Unsupported("float binop " + op)
        if ty == "bool":
            x, y = a.t, b.t
            r = {"BitAnd": z3.And, "BitOr": z3.Or, "BitXor": z3.Xor, "Eq": lambda p, q: p == q,
                 "Ne": lambda p, q: p != q}.get(op)
            if r is None:
                raise Unsupported("bool binop " + op)
            return Scalar(r(x, y), "bool")
        if ty not in INT_TYPES:
            raise Unsupported("binop on type " + ty)
        w, sg = INT_TYPES[ty]
        x, y = a.t, b.t
        if op in ("Shl", "Shr", "ShlUnchecked", "ShrUnchecked"):
            yw = y.size()
            if yw < w:
                y = z3.ZeroExt(w - yw, y)
            elif yw > w:
                y = z3.Extract(w - 1, 0, y)
            y = y & bv(w, w - 1)
            if op.startswith("Shl"):
                return Scalar(x << y, ty)
            return Scalar((x >> y) if sg else z3.LShR(x, y), ty)
        if y.size() != w:
            raise Unsupported("width mismatch in %s" % op)
        if op in ("Add", "AddUnchecked"):
            return Scalar(x + y, ty)
        if op in ("Sub", "SubUnchecked"):
            return Scalar(x - y, ty)
        if op in ("Mul", "MulUnchecked"):
            return Scalar(x * y, ty)
        if op in ("AddWithOverflow", "SubWithOverflow", "MulWithOverflow"):
            ext = (lambda t, k: z3.SignExt(k, t)) if sg else (lambda t, k: z3.ZeroExt(k, t))
            if op == "MulWithOverflow":
                k = w
            else:
                k = 2
            X, Y = ext(x, k), ext(y, k)
            wide = (X + Y) if op[0] == "A" else (X - Y) if op[0] == "S" else wide_mul(X, Y)
            res = z3.Extract(w - 1, 0, wide)
            ovf = ext(res, k) != wide
            return Agg("(%s, bool)" % ty, [Scalar(res, ty), Scalar(ovf, "bool")])
        if op == "Div":
            return Scalar((x / y) if sg else z3.UDiv(x, y), ty)
        if op == "Rem":
            return Scalar(z3.SRem(x, y) if sg else z3.URem(x, y), ty)
        if op == "BitAnd":
            return Scalar(x & y, ty)
        if op == "BitOr":
            return Scalar(x | y, ty)
        if op == "BitXor":
            return Scalar(x ^ y, ty)
        if op == "Eq":
            return Scalar(x == y, "bool")
        if op == "Ne":
            return Scalar(x != y, "bool")
        if op == "Lt":
            return Scalar((x < y) if sg else z3.ULT(x, y), "bool")
        if op == "Le":
            return Scalar((x <= y) if sg else z3.ULE(x, y), "bool")
        if op == "Gt":
            return Scalar((x > y) if sg else z3.UGT(x, y), "bool")
        if op == "Ge":
            return Scalar((x >= y) if sg else z3.UGE(x, y), "bool")
        if op == "Cmp":
            lt = (x < y) if sg else z3.ULT(x, y)
            d = z3.If(lt, bv(64, -1), z3.If(x == y, bv(64, 0), bv(64, 1)))
            return Enum("std::cmp::Ordering", d)
        raise Unsupported("int binop " + op)

    def unop(self, op, a):
        if not isinstance(a, Scalar):
            raise Unsupported("unop on %r" % (a,))
        if op == "Not":
            if a.ty == "bool":
                return Scalar(z3.Not(a.t), "bool")
            return Scalar(~a.t, a.ty)
        if op == "Neg":
            if a.ty == "f64":
                return Scalar(z3.fpNeg(a.t), "f64")
            return Scalar(-a.t, a.ty)
        raise Unsupported("unop " + op)

    def cast(self, v, ty, kind):
        if kind == "IntToInt":
            if not isinstance(v, Scalar):
                if isinstance(v, Enum):     # fieldless enum as integer
                    v = Scalar(v.discr, "isize")
                else:
                    raise Unsupported("IntToInt on %r" % (v,))
            if v.ty == "bool":
                w2, _ = INT_TYPES[ty]
                return Scalar(z3.If(v.t, bv(w2, 1), bv(w2, 0)), ty)
            w1, s1 = INT_TYPES[v.ty]
            w2, _ = INT_TYPES[ty]
            t = v.t
            if w2 < w1:
                t = z3.Extract(w2 - 1, 0, t)
            elif w2 > w1:
                t = z3.SignExt(w2 - w1, t) if s1 else z3.ZeroExt(w2 - w1, t)
            return Scalar(t, ty)
        if kind == "IntToFloat":
            w1, s1 = INT_TYPES[v.ty]
            if ty != "f64":
                raise Unsupported("IntToFloat to " + ty)
            return Scalar(z3.fpSignedToFP(RNE, v.t, F64) if s1 else z3.fpUnsignedToFP(RNE, v.t, F64), "f64")
        if kind == "FloatToInt":
            w2, s2 = INT_TYPES[ty]
            x = v.t
            # rust: saturating, NaN -> 0
            lo = -(1 << (w2 - 1)) if s2 else 0
            hi = (1 << (w2 - 1)) - 1 if s2 else (1 << w2) - 1
            conv = z3.fpToSBV(z3.RTZ(), x, z3.BitVecSort(w2)) if s2 else z3.fpToUBV(z3.RTZ(), x, z3.BitVecSort(w2))
            lo_f = z3.FPVal(float(lo), F64)
            hi_f = z3.FPVal(float(hi), F64)      # 2^63-1 rounds to 2^63: use >= 2^(w-1) test
            hi_lim = z3.FPVal(float(hi + 1), F64)
            res = z3.If(z3.fpIsNaN(x), bv(w2, 0),
                        z3.If(z3.fpLEQ(x, lo_f), bv(w2, lo),
                              z3.If(z3.fpGEQ(x, hi_lim), bv(w2, hi), conv)))
            return Scalar(res, ty)
        if kind in ("PointerCoercion", "PtrToPtr", "Transmute", "PointerExposeProvenance"):
            return v
        if kind == "FloatToFloat" and ty == "f64":
            return v
        raise Unsupported("cast kind " + kind)

    # ---- statements -------------------------------------------------------------------------
    def exec_stmt(self, s, fr, stmt, work):
        stmt = stmt.rstrip()
        if stmt.endswith(";"):
            stmt = stmt[:-1]
        if stmt.startswith(("StorageLive", "StorageDead", "nop", "Retag", "PlaceMention", "FakeRead", "AscribeUserType",
                            "Coverage", "ConstEvalCounter", "BackwardIncompatibleDropHint")):
            return
        if stmt.startswith("goto -> "):
            fr.bb, fr.idx = stmt[8:].strip(), 0
            return
        if stmt == "return":
            self.do_return(s, fr)
            return
        if stmt == "unreachable":
            self.outcomes.append(Outcome("panic", s.pc, msg="reached `unreachable` terminator (UB)", where=fr.fn.short + " " + fr.bb))
            raise PathEnd()
        if stmt.startswith("resume") or stmt.startswith("terminate") or stmt.startswith("abort"):
            raise PathEnd()
        if stmt.startswith("switchInt("):
            self.do_switch(s, fr, stmt, work)
            return
        if stmt.startswith("drop("):
            m = re.search(r"return: (bb\d+)", stmt)
            fr.bb, fr.idx = m.group(1), 0
            return
        if stmt.startswith("assert("):
            self.do_assert(s, fr, stmt, work)
            return
        if stmt.startswith("discriminant("):
            m = re.match(r"discriminant\((.*)\) = (\d+)$", stmt)
            v = self.load(s, fr, m.group(1))
            self.store(s, fr, m.group(1), Enum(v.ty if isinstance(v, Enum) else "?", bv(64, int(m.group(2))),
                                              v.payload if isinstance(v, Enum) else None))
            return
        # call terminator or assignment
        m = re.match(r"^(.*?) = (.*?) -> (\[return: (bb\d+).*\]|unwind.*)$", stmt)
        if m and not m.group(2).startswith(("copy ", "move ", "const ")):
            self.do_call(s, fr, m.group(1), m.group(2), m.group(4), work)
            return
        m2 = re.match(r"^([^=]*?\(.*\)) -> (unwind.*|\[.*\])$", stmt)
        if m2 and " = " not in split_first_assign(stmt):
            self.do_call(s, fr, None, m2.group(1), None, work)
            return
        eq = find_assign(stmt)
        if eq is not None:
            place, rv = stmt[:eq].strip(), stmt[eq + 3:].strip()
            loc0 = re.match(r"_\d+", place)
            dty = fr.fn.types.get(place, "?") if loc0 and loc0.group(0) == place else "?"
            val = self.rvalue(s, fr, rv, dty)
            self.store(s, fr, place, val)
            return
        raise Unsupported("statement syntax: " + stmt[:160])

    def do_return(self, s, fr):
        rv = fr.locals.get("_0", Agg("()", []))
        if fr.post is not None:
            rv = fr.post(rv)
        s.frames.pop()
        if not s.frames:
            o = Outcome("return", s.pc, value=rv)
            o.locals = dict(fr.locals)      # the entry frame's final state (referents of &mut arguments live here)
            self.outcomes.append(o)
            raise PathEnd()
        caller = s.frames[-1]
        if fr.dest is not None:
            self.store(s, caller, fr.dest, rv)
        if fr.ret_bb is None:
            raise PathEnd()
        caller.bb, caller.idx = fr.ret_bb, 0

    def do_switch(self, s, fr, stmt, work):
        m = re.match(r"switchInt\((.*)\) -> \[(.*)\]$", stmt)
        v = self.operand(s, fr, m.group(1))
        if not isinstance(v, Scalar):
            raise Unsupported("switchInt on %r" % (v,))
        targets = []
        other = None
        for part in split_top(m.group(2)):
            k, t = part.split(":")
            if k.strip() == "otherwise":
                other = t.strip()
            else:
                targets.append((int(k.strip()), t.strip()))
        t = v.t
        if v.ty == "bool":
            conds = [((z3.Not(t) if k == 0 else t), tb) for k, tb in targets]
        else:
            w = t.size()
            conds = [(t == bv(w, k), tb) for k, tb in targets]
        if other is not None:
            conds.append((z3.And([z3.Not(c) for c, _ in conds]) if conds else z3.BoolVal(True), other))
        feas = []
        for c, tb in conds:
            cs = z3.simplify(c)
            if z3.is_false(cs):
                continue
            if z3.is_true(cs):
                feas = [(None, tb)]
                break
            if self.feasible(s.pc, c):
                feas.append((c, tb))
        if not feas:
            raise PathEnd()
        for c, tb in feas[1:]:
            s2 = s.fork()
            s2.pc.append(c)
            f2 = s2.frames[-1]
            f2.bb, f2.idx = tb, 0
            work.append(s2)
        c, tb = feas[0]
        if c is not None and len(feas) > 1:
            s.pc.append(c)
        elif c is not None:
            s.pc.append(c)
        fr.bb, fr.idx = tb, 0

    def do_assert(self, s, fr, stmt, work):
        m = re.match(r"assert\((.*)\) -> \[success: (bb\d+).*\]$", stmt)
        parts = split_top(m.group(1))
        cond_txt = parts[0].strip()
        neg = False
        if cond_txt.startswith("!"):
            neg = True
            cond_txt = cond_txt[1:]
        c = self.operand(s, fr, cond_txt)
        cond = z3.Not(c.t) if neg else c.t
        msg = parts[1].strip().strip('"') if len(parts) > 1 else "assert"
        cs = z3.simplify(cond)
        if not z3.is_true(cs):
            if z3.is_false(cs) or self.feasible(s.pc, z3.Not(cond)):
                self.outcomes.append(Outcome("panic", s.pc + [z3.Not(cond)], msg=msg, where=fr.fn.short + " " + fr.bb))
            if z3.is_false(cs) or not self.feasible(s.pc, cond):
                raise PathEnd()
            s.pc.append(cond)
        fr.bb, fr.idx = m.group(2), 0

    # ---- calls ------------------------------------------------------------------------------
    def do_call(self, s, fr, dest, callee_txt, ret_bb, work):
        k = callee_txt.rfind("(")
        # find the matching open paren of the final argument list
        depth = 0
        for i in range(len(callee_txt) - 1, -1, -1):
            ch = callee_txt[i]
            if ch == ")":
                depth += 1
            elif ch == "(":
                depth -= 1
                if depth == 0:
                    k = i
                    break
        callee = callee_txt[:k].strip()
        arg_txts = split_top(callee_txt[k + 1:-1])
        args = [self.operand(s, fr, a) for a in arg_txts]
        dty = fr.fn.types.get(dest, "?") if dest else "!"
        # 1. models for std / formatting / panics
        for pat, fnc in self.models.items():
            if re.search(pat, callee):
                self.models_used.add(pat)
                res = fnc(self, s, fr, callee, args, dty, work, arg_txts)
                if res is DIVERGE:
                    raise PathEnd()
                if isinstance(res, tuple) and res and res[0] == "INLINE":
                    _, target, targs, post = res
                    self.push_call(s, fr, target, targs, dest, ret_bb, post)
                    return
                if ret_bb is None:
                    raise PathEnd()
                if dest:
                    self.store(s, fr, dest, res)
                fr.bb, fr.idx = ret_bb, 0
                return
        # 2. crate-local function
        target = self.lookup(callee, args, fr, arg_txts, dty)
        if target is None and any(re.search(p, callee) for p in self.opaque_calls):
            self.models_used.add("opaque-call: " + re.sub(r"<impl at [^>]*>", "<impl>", callee)[:70])
            if ret_bb is None:
                raise PathEnd()
            if dest:
                self.store(s, fr, dest, Opaque(dty, callee[:40]))
            fr.bb, fr.idx = ret_bb, 0
            return
        if target is None:
            raise Unsupported("call without model: %s" % callee[:140])
        self.push_call(s, fr, target, args, dest, ret_bb)

    def push_call(self, s, fr, target, args, dest, ret_bb, post=None):
        if len(s.frames) > 40:
            raise Unsupported("call depth > 40")
        nf = Frame(target, self.nframes)
        nf.post = post
        self.nframes += 1
        for (loc, _), a in zip(target.params, args):
            nf.locals[loc] = a
        nf.dest, nf.ret_bb = dest, ret_bb
        s.frames.append(nf)

    def arg_type(self, fr, arg_txt, val):
        m = re.match(r"^(?:no_retag )?(?:copy|move) (_\d+)$", arg_txt.strip())
        if m:
            return fr.fn.types.get(m.group(1))
        if isinstance(val, Scalar):
            return val.ty
        return None

    def lookup(self, callee, args, fr, arg_txts, dty):
        segs = split_path(callee)
        short = re.sub(r"::<.*>$", "", segs[-1])
        short = short.split("::<")[0]
        cands = [f for f in self.by_short.get(short, []) if len(f.params) == len(args)]
        if not cands:
            return None
        atys = [self.arg_type(fr, t, v) for t, v in zip(arg_txts, args)]

        def norm(t):
            return re.sub(r"\b(?:[a-z_][a-z0-9_]*::)+", "", t or "?").replace("'_ ", "").replace(" ", "")

        scored = []
        for f in cands:
            ok = True
            sc = 0
            for (p, pty), aty in zip(f.params, atys):
                if aty is None:
                    continue
                if norm(pty) == norm(aty):
                    sc += 2
                elif re.fullmatch(r"[A-Z]\w?", norm(pty).lstrip("&").replace("mut", "")):   # generic param
                    sc += 0
                else:
                    ok = False
                    break
            if not ok:
                continue
            if dty not in ("?", "!") and norm(f.ret) == norm(dty):
                sc += 2
            elif dty not in ("?", "!") and not re.fullmatch(r"[A-Z]\w?", norm(f.ret)) and "Self" not in f.ret:
                continue
            # prefer the impl the callee text names
            mt = re.match(r"^<(.+?) as (.+?)>::", callee)
            if mt:
                if norm(mt.group(1)) in norm(f.params[0][1]) or norm(mt.group(1)) in norm(f.ret):
                    sc += 1
            else:
                owner = "::".join(segs[:-1])
                if owner and type_base(owner) and type_base(owner) in f.name:
                    sc += 1
            scored.append((sc, f))
        if not scored:
            return None
        scored.sort(key=lambda x: -x[0])
        if len(scored) > 1 and scored[0][0] == scored[1][0]:
            # ambiguous: refuse rather than guess
            names = {f.name for sc, f in scored if sc == scored[0][0]}
            if len(names) > 1:
                raise Unsupported("ambiguous call target for %s: %s" % (callee[:80], sorted(names)[:3]))
        return scored[0][1]


DIVERGE = object()

# Wide products are introduced as hash-consed *abstract* variables P with the definition P == X*Y kept
# aside: a query that is unsat without the definitions is unsat with them (the multiplier circuit is then
# never bit-blasted); a query that is sat without them is re-decided with the definitions added.
MULDEFS = {}        # name -> (var, X*Y)
_MULKEY = {}


def wide_mul(X, Y):
    key = (X.sexpr(), Y.sexpr())
    if key not in _MULKEY:
        v = z3.BitVec("mul!%d" % len(_MULKEY), X.size())
        _MULKEY[key] = v
        MULDEFS[str(v)] = (v, X * Y)
    return _MULKEY[key]


def mul_defs_for(conds):
    """definitions of the abstract products occurring in conds (transitively)"""
    import z3 as _z
    seen, out, todo = set(), [], list(conds)
    names = set()

    def visit(e):
        stack = [e]
        while stack:
            x = stack.pop()
            i = x.get_id()
            if i in seen:
                continue
            seen.add(i)
            if _z.is_const(x) and x.decl().kind() == _z.Z3_OP_UNINTERPRETED:
                n = str(x)
                if n in MULDEFS and n not in names:
                    names.add(n)
                    out.append(MULDEFS[n][0] == MULDEFS[n][1])
                    stack.append(MULDEFS[n][1])
            else:
                stack.extend(x.children())
    for c in todo:
        visit(c)
    return out
BINOPS = {"Add", "Sub", "Mul", "Div", "Rem", "BitXor", "BitAnd", "BitOr", "Shl", "Shr", "Eq", "Lt", "Le", "Ne", "Ge", "Gt",
          "Cmp", "AddWithOverflow", "SubWithOverflow", "MulWithOverflow", "AddUnchecked", "SubUnchecked", "MulUnchecked",
          "ShlUnchecked", "ShrUnchecked"}
FMOD = z3.Function("fmod", F64, F64, F64)
POWF = z3.Function("powf", F64, F64, F64)
POWI = z3.Function("powi", F64, z3.BitVecSort(32), F64)


def balanced(s):
    d = 0
    for c in s:
        if c in "([":
            d += 1
        elif c in ")]":
            d -= 1
            if d < 0:
                return False
    return d == 0


def find_field_colon(inner):
    """index of the ':' separating `PLACE.N` from its type in `(PLACE.N: TYPE)`, at depth 0"""
    d = 0
    for i, c in enumerate(inner):
        if c in "([":
            d += 1
        elif c in ")]":
            d -= 1
        elif c == ":" and d == 0:
            if inner[i:i + 2] == "::" or (i > 0 and inner[i - 1] == ":"):
                continue
            if re.search(r"\.\d+$", inner[:i]):
                return i
    return None


def find_assign(stmt):
    d = 0
    for i in range(len(stmt) - 2):
        c = stmt[i]
        if c in "([":
            d += 1
        elif c in ")]":
            d -= 1
        elif d == 0 and stmt[i:i + 3] == " = ":
            return i
    return None


def split_first_assign(stmt):
    k = find_assign(stmt)
    return stmt if k is None else stmt[:k]


def split_path(p):
    """split a path on '::' at angle-bracket depth 0"""
    out, cur, d, i = [], [], 0, 0
    while i < len(p):
        c = p[i]
        if c == "<":
            d += 1
        elif c == ">" and not (i > 0 and p[i - 1] == "-"):
            d -= 1
        if d == 0 and p[i:i + 2] == "::":
            out.append("".join(cur))
            cur = []
            i += 2
            continue
        cur.append(c)
        i += 1
    out.append("".join(cur))
    return out


def type_base(ty):
    """last path segment of a type without generics/refs: `std::option::Option<T>` -> Option"""
    ty = ty.strip()
    ty = re.sub(r"^&(?:'\w+ )?(?:mut )?", "", ty)
    segs = split_path(ty)
    last = segs[-1] if segs else ty
    # `Option::<T>` or `Option<T>`
    if last.startswith("<") and len(segs) > 1:
        last = segs[-2]
    return re.sub(r"<.*$", "", last).strip()


# ---------------------------------------------------------------------------------------------
# std models: pattern on callee text -> fn(interp, state, frame, callee, args, dest_type, work, arg_txts)

def _opaque(I, s, fr, callee, args, dty, work, at):
    return Opaque(dty, callee[:40])


def _panic(I, s, fr, callee, args, dty, work, at):
    msg = ""
    for a in args:
        if isinstance(a, Opaque) and a.tag.startswith('"'):
            msg = a.tag
    I.outcomes.append(Outcome("panic", s.pc, msg="%s %s" % (callee.split("::")[-1][:40], msg), where=fr.fn.short + " " + fr.bb))
    return DIVERGE


def _identity(I, s, fr, callee, args, dty, work, at):
    return args[0]


def _deref_ref(I, s, fr, callee, args, dty, work, at):
    return args[0]


def mk_option(I, ty, some, val=None):
    return Enum(ty, bv(64, 1 if some else 0), {"Some": {0: val}} if some else {})


def mk_result(I, ty, ok, val):
    return Enum(ty, bv(64, 0 if ok else 1), {("Ok" if ok else "Err"): {0: val}})


def _try_from_int(I, s, fr, callee, args, dty, work, at):
    m = re.match(r"^<(\w+) as TryFrom<(\w+)>>::try_from$", callee) or re.match(r"^<(\w+) as TryInto<(\w+)>>::try_into$", callee)
    if not m:
        raise Unsupported("try_from form: " + callee)
    if "TryInto" in callee:
        src, dst = m.group(1), m.group(2)
    else:
        dst, src = m.group(1), m.group(2)
    v = args[0]
    if src not in INT_TYPES or dst not in INT_TYPES or not isinstance(v, Scalar):
        raise Unsupported("try_from on " + callee)
    w1, s1 = INT_TYPES[src]
    w2, s2 = INT_TYPES[dst]
    W = max(w1, w2) + 1
    x = z3.SignExt(W - w1, v.t) if s1 else z3.ZeroExt(W - w1, v.t)
    lo = -(1 << (w2 - 1)) if s2 else 0
    hi = (1 << (w2 - 1)) - 1 if s2 else (1 << w2) - 1
    fits = z3.And(x >= bv(W, lo), x <= bv(W, hi))
    conv = I.cast(v, dst, "IntToInt")
    # fork on fits
    outs = []
    okv = mk_result(I, dty, True, conv)
    errv = mk_result(I, dty, False, Opaque("TryFromIntError"))
    d = z3.If(fits, bv(64, 0), bv(64, 1))
    return Enum(dty, d, {"Ok": {0: conv}, "Err": {0: Opaque("TryFromIntError")}})


def _result_ok(I, s, fr, callee, args, dty, work, at):
    r = args[0]
    if not isinstance(r, Enum):
        raise Unsupported("Result::ok on %r" % (r,))
    okp = r.payload.get("Ok", {}).get(0, Opaque("?"))
    d = z3.If(r.discr == bv(64, 0), bv(64, 1), bv(64, 0))
    return Enum(dty, d, {"Some": {0: okp}})


def _try_branch(I, s, fr, callee, args, dty, work, at):
    # <Option<T> as Try>::branch -> ControlFlow<Option<Infallible>, T>: Continue=0, Break=1
    v = args[0]
    if not isinstance(v, Enum):
        raise Unsupported("Try::branch on %r" % (v,))
    if "Option" in callee:
        d = z3.If(v.discr == bv(64, 1), bv(64, 0), bv(64, 1))
        return Enum(dty, d, {"Continue": {0: v.payload.get("Some", {}).get(0, Opaque("?"))},
                             "Break": {0: Enum("Option<Infallible>", bv(64, 0))}})
    if "Result" in callee:
        d = z3.If(v.discr == bv(64, 0), bv(64, 0), bv(64, 1))
        return Enum(dty, d, {"Continue": {0: v.payload.get("Ok", {}).get(0, Opaque("?"))},
                             "Break": {0: Enum("Result<Infallible,E>", bv(64, 1), {"Err": {0: v.payload.get("Err", {}).get(0, Opaque("?"))}})}})
    raise Unsupported("Try::branch for " + callee)


def _from_residual(I, s, fr, callee, args, dty, work, at):
    if "Option" in callee:
        return Enum(dty, bv(64, 0))
    v = args[0]
    if isinstance(v, Enum):
        return Enum(dty, bv(64, 1), {"Err": {0: v.payload.get("Err", {}).get(0, Opaque("?"))}})
    raise Unsupported("from_residual " + callee)


def _ok_or_else(I, s, fr, callee, args, dty, work, at):
    v = args[0]
    if not isinstance(v, Enum):
        raise Unsupported("ok_or_else on %r" % (v,))
    d = z3.If(v.discr == bv(64, 1), bv(64, 0), bv(64, 1))
    return Enum(dty, d, {"Ok": {0: v.payload.get("Some", {}).get(0, Opaque("?"))}, "Err": {0: Opaque("closure result (error value; closure not executed)")}})


def _f64_unary(name):
    def f(I, s, fr, callee, args, dty, work, at):
        x = args[0].t
        if name == "floor":
            return Scalar(z3.fpRoundToIntegral(z3.RTN(), x), "f64")
        if name == "ceil":
            return Scalar(z3.fpRoundToIntegral(z3.RTP(), x), "f64")
        if name == "trunc":
            return Scalar(z3.fpRoundToIntegral(z3.RTZ(), x), "f64")
        if name == "abs":
            return Scalar(z3.fpAbs(x), "f64")
        raise Unsupported(name)
    return f


def _powf(I, s, fr, callee, args, dty, work, at):
    return Scalar(POWF(args[0].t, args[1].t), "f64")


def _powi(I, s, fr, callee, args, dty, work, at):
    return Scalar(POWI(args[0].t, args[1].t), "f64")


def _f64_cmp(name):
    def f(I, s, fr, callee, args, dty, work, at):
        a = I.load_raw(s, I.frame_by_id(s, args[0].frame), args[0].local, args[0].proj) if isinstance(args[0], Ref) else args[0]
        b = I.load_raw(s, I.frame_by_id(s, args[1].frame), args[1].local, args[1].proj) if isinstance(args[1], Ref) else args[1]
        x, y = a.t, b.t
        if name == "partial_cmp":
            # Option<Ordering>: None=0, Some=1 ; Ordering Less=-1, Equal=0, Greater=1
            isnan = z3.Or(z3.fpIsNaN(x), z3.fpIsNaN(y))
            d = z3.If(isnan, bv(64, 0), bv(64, 1))
            o = z3.If(z3.fpLT(x, y), bv(64, -1), z3.If(z3.fpEQ(x, y), bv(64, 0), bv(64, 1)))
            return Enum(dty, d, {"Some": {0: Enum("std::cmp::Ordering", o)}})
        op = {"eq": z3.fpEQ, "ne": z3.fpNEQ, "lt": z3.fpLT, "le": z3.fpLEQ, "gt": z3.fpGT, "ge": z3.fpGEQ}[name]
        return Scalar(op(x, y), "bool")
    return f


def _int_pow(I, s, fr, callee, args, dty, work, at):
    base, exp = args
    e = z3.simplify(exp.t)
    if not z3.is_bv_value(e):
        raise Unsupported("pow with symbolic exponent (constrain the exponent per obligation)")
    k = e.as_long()
    if k > 8:
        raise Unsupported("pow exponent > 8")
    w, sg = INT_TYPES[base.ty]
    acc = Scalar(bv(w, 1), base.ty)
    for _ in range(k):
        r = I.binop("MulWithOverflow", acc, base)
        ovf = r.fields[1].t
        if not z3.is_false(z3.simplify(ovf)):
            if I.feasible(s.pc, ovf):
                # overflow: dev panics ("attempt to multiply with overflow"), release wraps
                if I.overflow_checks:
                    I.outcomes.append(Outcome("panic", s.pc + [ovf], msg="attempt to multiply with overflow (in pow)", where=fr.fn.short + " " + fr.bb))
                    s.pc.append(z3.Not(ovf))
                    if not I.feasible(s.pc):
                        return DIVERGE
        acc = r.fields[0]
    return acc


def _int_method(I, s, fr, callee, args, dty, work, at):
    """std integer methods people reach for when they `fix' an arithmetic arm: checked_*, wrapping_*, saturating_*,
    overflowing_*, div_euclid/rem_euclid, abs, unsigned_abs, signum, min, max (semantics as documented in core::num)"""
    m = re.search(r"core::num::<impl (\w+)>::(\w+)$", callee) or re.search(r"^<?(\w+)>?::(\w+)$", callee)
    if not m:
        raise Unsupported("int method " + callee[:60])
    ty, meth = m.group(1), m.group(2)
    if ty not in INT_TYPES:
        raise Unsupported("int method on " + ty)
    w, sg = INT_TYPES[ty]
    a = args[0]
    b = args[1] if len(args) > 1 else None
    if not isinstance(a, Scalar) or (b is not None and not isinstance(b, Scalar)):
        raise Unsupported("int method on non-scalars")
    x = a.t
    y = b.t if b is not None else None
    MIN = bv(w, -(1 << (w - 1))) if sg else bv(w, 0)
    MAX = bv(w, (1 << (w - 1)) - 1) if sg else bv(w, (1 << w) - 1)

    def panic(cond, msg):
        if I.feasible(s.pc, cond):
            I.outcomes.append(Outcome("panic", s.pc + [cond], msg=msg, where=fr.fn.short + " " + fr.bb))
        s.pc.append(z3.Not(cond))
        if not I.feasible(s.pc):
            raise PathEnd()

    def arith(op):
        r = I.binop({"add": "AddWithOverflow", "sub": "SubWithOverflow", "mul": "MulWithOverflow"}[op], a, b)
        return r.fields[0].t, r.fields[1].t

    def trunc_div():
        return (x / y) if sg else z3.UDiv(x, y)

    def trunc_rem():
        return z3.SRem(x, y) if sg else z3.URem(x, y)
    div_ovf = z3.And(x == MIN, y == bv(w, -1)) if (sg and y is not None) else z3.BoolVal(False)
    I.models_used.add("core::num::<impl %s>::%s" % (ty, meth))
    opt_ty = dty
    if meth in ("checked_add", "checked_sub", "checked_mul"):
        r, o = arith(meth[8:])
        return Enum(opt_ty, z3.If(o, bv(64, 0), bv(64, 1)), {"Some": {0: Scalar(r, ty)}})
    if meth in ("checked_div", "checked_rem", "checked_div_euclid", "checked_rem_euclid"):
        bad = z3.Or(y == 0, div_ovf)
        if meth == "checked_div":
            v = trunc_div()
        elif meth == "checked_rem":
            v = trunc_rem()
        else:
            q, r_ = trunc_div(), trunc_rem()
            if sg:
                adj = r_ < 0
                qe = z3.If(adj, z3.If(y > 0, q - 1, q + 1), q)
                re_ = z3.If(adj, z3.If(y < 0, r_ - y, r_ + y), r_)
            else:
                qe, re_ = q, r_
            v = qe if "div" in meth else re_
        return Enum(opt_ty, z3.If(bad, bv(64, 0), bv(64, 1)), {"Some": {0: Scalar(v, ty)}})
    if meth == "checked_neg":
        bad = (x == MIN) if sg else (x != 0)
        return Enum(opt_ty, z3.If(bad, bv(64, 0), bv(64, 1)), {"Some": {0: Scalar(-x, ty)}})
    if meth in ("wrapping_add", "wrapping_sub", "wrapping_mul"):
        return Scalar({"add": x + y, "sub": x - y, "mul": x * y}[meth[9:]], ty)
    if meth == "wrapping_neg":
        return Scalar(-x, ty)
    if meth in ("saturating_add", "saturating_sub", "saturating_mul"):
        r, o = arith(meth[11:])
        if sg:
            if meth.endswith("mul"):
                neg = (x < 0) != (y < 0)
            elif meth.endswith("add"):
                neg = y < 0
            else:
                neg = y > 0
            sat = z3.If(neg, MIN, MAX)
        else:
            sat = MAX if not meth.endswith("sub") else MIN
        return Scalar(z3.If(o, sat, r), ty)
    if meth in ("overflowing_add", "overflowing_sub", "overflowing_mul"):
        r, o = arith(meth[12:])
        return Agg("(%s, bool)" % ty, [Scalar(r, ty), Scalar(o, "bool")])
    if meth in ("div_euclid", "rem_euclid"):
        panic(y == 0, "attempt to divide by zero" if "div" in meth else "attempt to calculate the remainder with a divisor of zero")
        if sg:
            panic(div_ovf, "attempt to divide with overflow" if "div" in meth else "attempt to calculate the remainder with overflow")
        q, r_ = trunc_div(), trunc_rem()
        if sg:
            adj = r_ < 0
            qe = z3.If(adj, z3.If(y > 0, q - 1, q + 1), q)
            re_ = z3.If(adj, z3.If(y < 0, r_ - y, r_ + y), r_)
        else:
            qe, re_ = q, r_
        return Scalar(qe if "div" in meth else re_, ty)
    if meth == "abs" and sg:
        if I.overflow_checks:
            panic(x == MIN, "attempt to negate with overflow")
        return Scalar(z3.If(x < 0, -x, x), ty)
    if meth == "wrapping_abs" and sg:
        return Scalar(z3.If(x < 0, -x, x), ty)
    if meth == "unsigned_abs" and sg:
        uty = {"i32": "u32", "i64": "u64", "i8": "u8", "i16": "u16", "isize": "usize"}[ty]
        return Scalar(z3.If(x < 0, -x, x), uty)
    if meth == "signum" and sg:
        return Scalar(z3.If(x > 0, bv(w, 1), z3.If(x == 0, bv(w, 0), bv(w, -1))), ty)
    if meth in ("min", "max"):
        lt = (x < y) if sg else z3.ULT(x, y)
        return Scalar(z3.If(lt, x, y) if meth == "min" else z3.If(lt, y, x), ty)
    if meth in ("is_negative", "is_positive") and sg:
        return Scalar((x < 0) if meth == "is_negative" else (x > 0), "bool")
    raise Unsupported("int method %s::%s" % (ty, meth))


def _ref_eq(I, s, fr, callee, args, dty, work, at):
    """`<&T as PartialEq>::eq/ne` (std's blanket impl): compare the referents — scalars directly, crate types by inlining their own eq"""
    m = re.match(r"^<&(.+) as PartialEq>::(eq|ne)$", callee)
    inner_ty, meth = m.group(1), m.group(2)

    def deref(v):
        if isinstance(v, Ref):
            f2 = I.frame_by_id(s, v.frame)
            return I.load_raw(s, f2, v.local, list(v.proj))
        return v
    a, b = deref(args[0]), deref(args[1])
    a2, b2 = deref(a), deref(b)
    if isinstance(a2, Scalar) and isinstance(b2, Scalar):
        r = I.binop("Eq" if meth == "eq" else "Ne", a2, b2)
        return r
    if meth == "ne":
        raise Unsupported("<&T as PartialEq>::ne on a non-scalar")
    want = "&" + inner_ty
    norm = lambda t: re.sub(r"\b(?:[a-z_][a-z0-9_]*::)+", "", t or "?").replace(" ", "")
    cands = [f for f in I.by_short.get("eq", []) if len(f.params) == 2 and norm(f.params[0][1]) == norm(want) and norm(f.params[1][1]) == norm(want)]
    if len(cands) != 1:
        raise Unsupported("no unique eq for %s (%d candidates)" % (inner_ty, len(cands)))
    return ("INLINE", cands[0], [a, b], None)


def _deref_val(I, s, v):
    if isinstance(v, Ref):
        f2 = I.frame_by_id(s, v.frame)
        return I.load_raw(s, f2, v.local, list(v.proj))
    return v


def _vec_u8(I, s, fr, callee, args, dty, work, at):
    """Vec<u8> / [u8] operations on the concrete-length model"""
    meth = re.search(r"::(\w+)(?:::<.*>)?$", callee).group(1)
    r = args[0]
    v = _deref_val(I, s, r)
    if isinstance(v, Ref):
        r = v
        v = _deref_val(I, s, v)
    if not isinstance(v, VecU8):
        raise Unsupported("%s on %r" % (callee[:50], v))
    I.models_used.add("Vec<u8>::%s (concrete length, symbolic elements)" % meth)
    if meth == "push":
        if not isinstance(r, Ref) or not isinstance(args[1], Scalar):
            raise Unsupported("Vec::push target/argument")
        f2 = I.frame_by_id(s, r.frame)
        newv = VecU8(v.items + (args[1],))
        if r.proj:
            f2.locals[r.local] = I.updated(s, f2, f2.locals.get(r.local, UNINIT), list(r.proj), newv)
        else:
            f2.locals[r.local] = newv
        return Agg("()", [])
    if meth == "len":
        return Scalar(bv(64, len(v.items)), "usize")
    if meth == "is_empty":
        return Scalar(z3.BoolVal(len(v.items) == 0), "bool")
    if meth == "deref" or meth == "deref_mut" or meth == "as_slice":
        return r
    if meth in ("last", "last_mut", "first"):
        if not v.items:
            return Enum(dty, bv(64, 0), {})
        k = len(v.items) - 1 if meth != "first" else 0
        if not isinstance(r, Ref):
            raise Unsupported("slice::last on a non-reference")
        return Enum(dty, bv(64, 1), {"Some": {0: Ref(r.frame, r.local, tuple(r.proj) + (("vecidx", k),), mut=(meth == "last_mut"))}})
    raise Unsupported("Vec<u8> method " + meth)


def _unwrap(I, s, fr, callee, args, dty, work, at):
    """Option::unwrap / Result::unwrap / expect: the payload, or a panic outcome"""
    e = args[0]
    if not isinstance(e, Enum):
        raise Unsupported("unwrap of %r" % (e,))
    is_opt = "Option" in callee
    good = (e.discr == 1) if is_opt else (e.discr == 0)
    var = "Some" if is_opt else "Ok"
    if I.feasible(s.pc, z3.Not(good)):
        I.outcomes.append(Outcome("panic", s.pc + [z3.Not(good)], msg="called `%s::unwrap()` on a `%s` value" % ("Option" if is_opt else "Result", "None" if is_opt else "Err"),
                                  where=fr.fn.short + " " + fr.bb))
    s.pc.append(good)
    if not I.feasible(s.pc):
        return DIVERGE
    pl = e.payload.get(var, {})
    if 0 not in pl:
        inner = re.search(r"<(.*)>", dty or "")
        pl[0] = I.sym(dty, "unwrap%d" % I.fresh_n)
        I.fresh_n += 1
    return pl[0]


def _unwrap_or(I, s, fr, callee, args, dty, work, at):
    e, d = args[0], args[1]
    if not isinstance(e, Enum) or not isinstance(d, Scalar):
        raise Unsupported("unwrap_or")
    pl = e.payload.setdefault("Some", {})
    if 0 not in pl:
        pl[0] = I.sym(d.ty, "some%d" % e.uid)
    return Scalar(z3.If(e.discr == 1, pl[0].t, d.t), d.ty)


def _ord_method(name):
    """PartialOrd::{lt,le,gt,ge} / PartialEq::ne default (provided) methods on crate types: run the type's own
    partial_cmp / eq from the MIR dump, then apply core's definition of the provided method."""
    def f(I, s, fr, callee, args, dty, work, at):
        base = "eq" if name == "ne" else "partial_cmp"
        fake = re.sub(r"::\w+$", "::" + base, callee)
        want_ret = "bool" if base == "eq" else "Option<std::cmp::Ordering>"
        target = I.lookup(fake, args, fr, at, want_ret)
        if target is None:
            raise Unsupported("no %s impl found for %s" % (base, callee[:80]))
        if name == "ne":
            post = lambda rv: Scalar(z3.Not(rv.t), "bool")
        else:
            def post(rv, name=name):
                if not isinstance(rv, Enum):
                    raise Unsupported("partial_cmp result %r" % (rv,))
                o = rv.payload.get("Some", {}).get(0)
                some = rv.discr == bv(64, 1)
                od = o.discr if isinstance(o, Enum) else bv(64, 0)
                c = {"lt": od == bv(64, -1), "gt": od == bv(64, 1),
                     "le": z3.Or(od == bv(64, -1), od == bv(64, 0)), "ge": z3.Or(od == bv(64, 1), od == bv(64, 0))}[name]
                return Scalar(z3.And(some, c), "bool")
        return ("INLINE", target, args, post)
    return f


STD_MODELS = {
    r"core::fmt::rt::Argument::<'_>::new_|Arguments::<'_>::new|^std::fmt::format$|^must_use::<|Arguments::<'_>::from_str": _opaque,
    r"panicking::panic|begin_panic|unwrap_failed|expect_failed|panic_fmt|panic_display|unreachable_display|core::panicking": _panic,
    r"^<f64 as PartialOrd>::partial_cmp$": _f64_cmp("partial_cmp"),
    r"^<f64 as PartialOrd>::lt$": _f64_cmp("lt"), r"^<f64 as PartialOrd>::le$": _f64_cmp("le"),
    r"^<f64 as PartialOrd>::gt$": _f64_cmp("gt"), r"^<f64 as PartialOrd>::ge$": _f64_cmp("ge"),
    r"^<f64 as PartialEq>::eq$": _f64_cmp("eq"), r"^<f64 as PartialEq>::ne$": _f64_cmp("ne"),
    r"^<(?!f64|f32|i8|i16|i32|i64|u8|u16|u32|u64|usize|isize|bool|char)[\w:]+ as PartialOrd>::lt$": _ord_method("lt"),
    r"^<(?!f64|f32|i8|i16|i32|i64|u8|u16|u32|u64|usize|isize|bool|char)[\w:]+ as PartialOrd>::le$": _ord_method("le"),
    r"^<(?!f64|f32|i8|i16|i32|i64|u8|u16|u32|u64|usize|isize|bool|char)[\w:]+ as PartialOrd>::gt$": _ord_method("gt"),
    r"^<(?!f64|f32|i8|i16|i32|i64|u8|u16|u32|u64|usize|isize|bool|char)[\w:]+ as PartialOrd>::ge$": _ord_method("ge"),
    r"^<(?!f64|f32|i8|i16|i32|i64|u8|u16|u32|u64|usize|isize|bool|char)[\w:]+ as PartialEq>::ne$": _ord_method("ne"),
    r"^<&.+ as PartialEq>::(eq|ne)$": _ref_eq,
    r"^Vec::<u8>::(push|len|is_empty)$|^<Vec<u8> as (std::ops::)?Deref(Mut)?>::deref(_mut)?$|^core::slice::<impl \[u8\]>::(last|last_mut|first|len|is_empty)$": _vec_u8,
    r"^Option::<.*>::unwrap$|^Result::<.*>::unwrap$|^Option::<.*>::expect$": _unwrap,
    r"^Option::<(u8|u16|u32|u64|usize|i32|i64)>::unwrap_or$": _unwrap_or,
    r"^<\w+ as TryFrom<\w+>>::try_from$|^<\w+ as TryInto<\w+>>::try_into$": _try_from_int,
    r"^Result::<.*>::ok$": _result_ok,
    r"as (?:std::ops::)?Try>::branch$": _try_branch,
    r"as (?:std::ops::)?FromResidual<.*>>::from_residual$": _from_residual,
    r"^Option::<.*>::ok_or_else::<": _ok_or_else,
    r"f64>::floor$": _f64_unary("floor"), r"f64>::ceil$": _f64_unary("ceil"), r"f64>::trunc$": _f64_unary("trunc"),
    r"f64>::abs$": _f64_unary("abs"),
    r"f64>::powf$": _powf, r"f64>::powi$": _powi,
    r"^core::num::<impl (i32|u64|u32|i64|usize)>::pow$": _int_pow,
    r"^core::num::<impl (i8|i16|i32|i64|isize|u8|u16|u32|u64|usize)>::(checked_\w+|wrapping_\w+|saturating_\w+|overflowing_\w+|div_euclid|rem_euclid|abs|unsigned_abs|signum|is_negative|is_positive)$": _int_method,
    r"^<(i8|i16|i32|i64|isize|u8|u16|u32|u64|usize) as Ord>::(min|max)$": _int_method,
}


# ---------------------------------------------------------------------------------------------
# MIR dump of a crate from a scratch copy

def dump_mir(scratch, pkg, overflow_checks=True, extra_cargo=(), timeout=1800):
    """cargo +nightly rustc -p pkg --lib -- -Zunpretty=mir ; returns (text, seconds, log)"""
    from common import sh
    cache = os.environ.get("VERIF_MIR_CACHE")      # development aid only; never set by the registered commands
    if cache:
        cp = "%s.%s.%s.mir" % (cache, pkg, "on" if overflow_checks else "off")
        if os.path.exists(cp):
            return open(cp).read(), 0.0, "", 0
    tdir = os.path.join(scratch.root, "mir-target")
    cmd = ["cargo", "+nightly", "rustc", "--offline", "-p", pkg] + list(extra_cargo) + \
          ["--", "-Zunpretty=mir", "-C", "debug-assertions=off", "-C", "overflow-checks=" + ("on" if overflow_checks else "off")]
    t0 = time.time()
    import subprocess
    p = subprocess.run(cmd, cwd=scratch.src, env=scratch.env(CARGO_TARGET_DIR=tdir), stdout=subprocess.PIPE,
                       stderr=subprocess.PIPE, text=True, errors="replace", timeout=timeout)
    if cache and p.returncode == 0:
        open(cp, "w").write(p.stdout)
    return p.stdout, time.time() - t0, p.stderr, p.returncode


def rust_enum_variants(src_text, enum_name):
    """variant names of `enum NAME { .. }` in declaration order (None if not found)"""
    m = re.search(r"\benum\s+%s\b[^{]*\{" % re.escape(enum_name), src_text)
    if not m:
        return None
    i = m.end()
    depth, j = 1, i
    while j < len(src_text) and depth:
        c = src_text[j]
        if c == "{":
            depth += 1
        elif c == "}":
            depth -= 1
        j += 1
    body = src_text[i:j - 1]
    body = re.sub(r"//[^\n]*", "", body)
    body = re.sub(r"/\*.*?\*/", "", body, flags=re.S)
    body = re.sub(r"#\[[^\]]*\]", "", body)
    out = []
    for part in split_top(body):
        mm = re.match(r"\s*([A-Za-z_][A-Za-z0-9_]*)", part)
        if mm:
            out.append(mm.group(1))
    return out
