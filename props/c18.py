"""C18 — the JSON transpile target writes valid JSON that denotes the bound values (kernel-level claim).

Stage 1 (engine mirsem, rustc MIR of JsonGenerator::transpile_expr): which function turns a constant *value* into the text
that is written?  For a literal, for a name bound to a constant and for a folded constant expression the MIR is executed on
a shape-concrete operand; on every feasible path that returns text, the text must be the result of one crate-local writer
F applied to the value (the literal's `value`, the looked-up binding, the result of expr_into_value) — not the token's
source text and not the Display of the value, which are Erg/Python notation.  F is discovered here, not assumed.

Stage 2 (engine Kani/CBMC over the real erg_compiler crate, overlay on transpile.rs): F itself, for every value of
  * None, Bool(b): the text, spaces outside strings ignored, is `null` / `true` / `false`;
  * Str(s) per UTF-8 width pattern of s (every code point of each class): the text is exactly one RFC 8259 string literal
    and the reference decoder written in the harness (escapes \\" \\\\ \\/ \\b \\f \\n \\r \\t \\uXXXX incl. surrogate pairs) returns s;
  * lists/tuples of such scalars (concrete shape, symbolic leaves): the text is the JSON array of the element texts.
A violation is replayed natively (Kani concrete playback, dev and release) and end to end: the module is transpiled by the
built `erg transpile --target json` and read by python's json.load."""
import itertools
import json
import os
import re

from common import (BROKEN, HELD, INCONCLUSIVE, VIOLATED, Obligation, Report, Scratch, extract_fn, log, sh)
from kani import Harness, KaniRun, confirm_violations

PRELUDE = r"""
    /// reference: RFC 8259 section 7.  `b` must be exactly one string literal; the decoded UTF-8 bytes go to `out`
    pub fn __ref_json_str(b: &[u8], out: &mut [u8; 24]) -> Option<usize> {
        let n = b.len();
        if n < 2 || b[0] != b'"' || b[n - 1] != b'"' { return None; }
        let mut i = 1; let mut k = 0;
        while i < n - 1 {
            let c = b[i];
            if c == b'"' || c < 0x20 { return None; }           // unescaped quote / control character
            if c != b'\\' { if k >= 24 { return None; } out[k] = c; k += 1; i += 1; continue; }
            if i + 1 >= n - 1 { return None; }
            let e = b[i + 1];
            let simple: Option<u8> = match e { b'"' => Some(b'"'), b'\\' => Some(b'\\'), b'/' => Some(b'/'), b'b' => Some(8), b'f' => Some(12),
                                               b'n' => Some(10), b'r' => Some(13), b't' => Some(9), _ => None };
            if let Some(x) = simple { if k >= 24 { return None; } out[k] = x; k += 1; i += 2; continue; }
            if e != b'u' { return None; }
            let (mut cp, used) = match __hex4(b, i + 2, n - 1) { Some(v) => (v, 6), None => return None };
            let mut adv = used;
            if cp >= 0xD800 && cp <= 0xDBFF {
                if i + 7 >= n - 1 || b[i + 6] != b'\\' || b[i + 7] != b'u' { return None; }
                let lo = match __hex4(b, i + 8, n - 1) { Some(v) => v, None => return None };
                if lo < 0xDC00 || lo > 0xDFFF { return None; }
                cp = 0x10000 + ((cp - 0xD800) << 10) + (lo - 0xDC00);
                adv = 12;
            } else if cp >= 0xDC00 && cp <= 0xDFFF { return None; }
            if k + 4 > 24 { return None; }
            if cp < 0x80 { out[k] = cp as u8; k += 1; }
            else if cp < 0x800 { out[k] = 0xC0 | (cp >> 6) as u8; out[k + 1] = 0x80 | (cp & 0x3F) as u8; k += 2; }
            else if cp < 0x10000 { out[k] = 0xE0 | (cp >> 12) as u8; out[k + 1] = 0x80 | ((cp >> 6) & 0x3F) as u8; out[k + 2] = 0x80 | (cp & 0x3F) as u8; k += 3; }
            else { out[k] = 0xF0 | (cp >> 18) as u8; out[k + 1] = 0x80 | ((cp >> 12) & 0x3F) as u8; out[k + 2] = 0x80 | ((cp >> 6) & 0x3F) as u8; out[k + 3] = 0x80 | (cp & 0x3F) as u8; k += 4; }
            i += adv;
        }
        Some(k)
    }
    pub fn __hex4(b: &[u8], at: usize, end: usize) -> Option<u32> {
        if at + 4 > end { return None; }
        let mut v: u32 = 0; let mut j = 0;
        while j < 4 {
            let c = b[at + j];
            let d = if c >= b'0' && c <= b'9' { c - b'0' } else if c >= b'a' && c <= b'f' { c - b'a' + 10 } else if c >= b'A' && c <= b'F' { c - b'A' + 10 } else { return None; };
            v = (v << 4) | d as u32; j += 1;
        }
        Some(v)
    }
    /// the text equals `want` (compact JSON without strings) once JSON whitespace is dropped
    pub fn __eq_compact(got: &[u8], want: &[u8]) -> bool {
        let mut i = 0; let mut k = 0;
        while i < got.len() {
            let c = got[i]; i += 1;
            if c == b' ' || c == b'\n' || c == b'\r' || c == b'\t' { continue; }
            if k >= want.len() || want[k] != c { return false; }
            k += 1;
        }
        k == want.len()
    }
"""

CLASS = {"A": 1, "2": 2, "3": 3, "4": 4}


def H(name, body, role, **kw):
    return Harness(name, body, role, **kw)


def build_str(shape):
    n = sum(CLASS[c] for c in shape)
    lines = ["        let mut buf = [0u8; %d];" % max(n, 1)]
    off = 0
    for c in shape:
        w = CLASS[c]
        if w == 1:
            lines.append("        { let c: u8 = kani::any(); kani::assume(c < 0x80); buf[%d] = c; }" % off)
        else:
            lo = {2: 0x80, 3: 0x800, 4: 0x10000}[w]
            hi = {2: 0x7ff, 3: 0xffff, 4: 0x10ffff}[w]
            lines.append("        { let c: u32 = kani::any(); kani::assume(c >= %d && c <= %d && !(c >= 0xD800 && c <= 0xDFFF)); "
                         "let ch = char::from_u32(c).unwrap(); ch.encode_utf8(&mut buf[%d..%d]); }" % (lo, hi, off, off + w))
        off += w
    lines.append("        let s: &str = std::str::from_utf8(&buf[..%d]).unwrap();" % n)
    return lines, n


def h_str(F, shape):
    lines, n = build_str(shape)
    lines += [
        "        kani::cover!(true, \"reach\");",
        "        let v = ValueObj::Str(erg_common::Str::rc(s));",
        "        let j = %s(&v);" % F,
        "        let mut out = [0u8; 24];",
        "        let r = __ref_json_str(j.as_bytes(), &mut out);",
        "        assert!(r.is_some(), \"valid: the text is one JSON string literal (quote, backslash and control characters escaped)\");",
        "        if let Some(k) = r {",
        "            assert!(k == %d, \"length: the literal denotes a string of the same UTF-8 length\");" % n,
        "            let mut ok = true; let mut q = 0;",
        "            while q < %d { if q < k && out[q] != buf[q] { ok = false; } q += 1; }" % n,
        "            assert!(ok, \"value: the literal denotes the same string\");",
        "        }",
        "        std::mem::forget(j); std::mem::forget(v);",
    ]
    return H("j_str_%s" % (shape or "empty"), "\n".join(lines), "writer/Str/[%s]" % shape, unwind=6 * n + 5,
             asserts={"valid": "", "length": "", "value": ""}, covers=["reach"],
             meta=dict(shape="ValueObj::Str of UTF-8 width pattern [%s] (%d bytes)" % (shape, n),
                       symbolic=["every code point of each class (A: any ASCII incl. controls, quote, backslash; 2/3/4: any scalar value of that width)"],
                       bounds={"chars": len(shape)}, cost=n + 1))


def h_scalars(F):
    body = """        let b: bool = kani::any();
        kani::cover!(b, "reach-true");
        kani::cover!(!b, "reach-false");
        let v = ValueObj::Bool(b);
        let j = %(F)s(&v);
        assert!(__eq_compact(j.as_bytes(), if b { b"true" } else { b"false" }), "bool: a boolean is written as true / false");
        let n = ValueObj::None;
        let jn = %(F)s(&n);
        assert!(__eq_compact(jn.as_bytes(), b"null"), "none: None is written as null");
        std::mem::forget(j); std::mem::forget(jn);""" % dict(F=F)
    return H("j_scalars", body, "writer/Bool,None", unwind=8, asserts={"bool": "", "none": ""}, covers=["reach-true", "reach-false"],
             meta=dict(shape="ValueObj::Bool / ValueObj::None", symbolic=["b: bool"], bounds={}))


def h_seq(F, kind, n):
    """a list / tuple of n scalars: each element None or Bool(b), chosen symbolically"""
    lines = ["        let mut elems: Vec<ValueObj> = Vec::new();", "        let mut want = [0u8; %d]; let mut w = 0;" % (6 * n + 2), "        want[w] = b'['; w += 1;"]
    for i in range(n):
        lines += [
            "        { let isnone: bool = kani::any(); let b: bool = kani::any();",
            "          elems.push(if isnone { ValueObj::None } else { ValueObj::Bool(b) });",
            "          let t: &[u8] = if isnone { b\"null\" } else if b { b\"true\" } else { b\"false\" };",
            ("          want[w] = b','; w += 1;" if i else "") + " let mut q = 0; while q < t.len() { want[w] = t[q]; w += 1; q += 1; } }",
        ]
    lines += [
        "        want[w] = b']'; w += 1;",
        "        kani::cover!(true, \"reach\");",
        "        let v = ValueObj::%s(erg_common::ArcArray::from(elems));" % kind,
        "        let j = %s(&v);" % F,
        "        assert!(__eq_compact(j.as_bytes(), &want[..w]), \"array: a %s is written as the JSON array of its elements' texts\");" % kind.lower(),
        "        std::mem::forget(j); std::mem::forget(v);",
    ]
    return H("j_%s_%d" % (kind.lower(), n), "\n".join(lines), "writer/%s/len=%d" % (kind, n), unwind=8 * n + 8, asserts={"array": ""}, covers=["reach"],
             meta=dict(shape="ValueObj::%s of %d scalars" % (kind, n), symbolic=["each element: None or Bool(b)"], bounds={"elements": n}, cost=4 * n + 4))


def discover_writer(tsrc):
    """fallback when stage 1 could not name F: the function the Literal arm of JsonGenerator::transpile_expr calls"""
    m = re.search(r"impl JsonGenerator \{(.*)$", tsrc, re.S)
    body = extract_fn(m.group(1) if m else "", "transpile_expr") or ""
    mm = re.search(r"Expr::Literal\((\w+)\)\s*=>\s*(?:Self::)?(\w+)\(&\1\.value\)", body)
    return mm.group(2) if mm else None


def run(tier, seed, only=None):
    rep = Report("C18", tier, seed, "other",
                 "Kernel-level partial claim about the JSON target: (1) JsonGenerator::transpile_expr hands every constant value - a literal's value, the value "
                 "bound to a name, a folded constant expression - to one value-to-JSON writer (decided on the function's rustc MIR, engine mirsem); (2) that writer "
                 "writes None as null and booleans as true/false (Kani/CBMC over the real crate) and calls one string kernel for Str values; (3) the string kernel, "
                 "executed on its MIR with a model of String building for strings of k characters (every Unicode scalar value for each character), writes exactly one "
                 "RFC 8259 string literal that a reference decoder maps back to the input; (4) the list / tuple / record / dict arms, transpile_def and transpile write, "
                 "for n opaque element texts that are JSON values by the induction hypothesis, the JSON array / object of those texts in order.  Number formatting "
                 "(Rust's integer/float Display), containers as values and the front end are not decided.", partial=bool(only))
    s = Scratch("c18")
    try:
        tsrc = s.read("crates/erg_compiler/transpile.rs")
        m = re.search(r"impl JsonGenerator \{(.*)$", tsrc, re.S)
        jsrc = m.group(1) if m else ""
        rep.add_function("JsonGenerator::transpile_expr", "crates/erg_compiler/transpile.rs", extract_fn(jsrc, "transpile_expr"))
        import c18_flow
        import mir2smt as M
        text, dt, err, rc = M.dump_mir(s, "erg_compiler", overflow_checks=True, extra_cargo=["--lib"])
        F, sviol = c18_flow.stage(rep, s, tsrc, only, text=text, dump=(dt, err, rc))
        if not F:
            F = discover_writer(tsrc)
        exe = None
        if sviol:
            exe = c18_flow.e2e(s, sviol, F)
        if F and re.match(r"^\w+$", F) and re.search(r"\bfn %s\b" % F, tsrc):
            rep.add_function(F, "crates/erg_compiler/transpile.rs", extract_fn(tsrc, F))
            for callee in sorted(set(re.findall(r"\b(\w+)\(", extract_fn(tsrc, F) or ""))):
                if callee != F and re.search(r"\nfn %s\b" % callee, tsrc):
                    rep.add_function(callee, "crates/erg_compiler/transpile.rs", extract_fn(tsrc, callee))
            import c18_str
            c18_str.stage(rep, s, tsrc, F, tier, only, text=text)
            import c18_struct
            stv = c18_struct.stage(rep, s, tsrc, tier, only, text, F=F) or []
            if stv:
                exe = c18_flow.e2e_struct(s, stv, exe)
            kk = KaniRun(s, "erg_compiler", "crates/erg_compiler", tier, workers=2, mem_gb=12, cap=300 if tier == "quick" else 1500)
            hs = [h_scalars(F)]
            for h in hs:
                if not only or only in h.name or only in h.role:
                    kk.add("crates/erg_compiler/transpile.rs", h, PRELUDE)
            kk.run()
            for h in kk.all_harnesses():
                for o in kk.obligations(h, functions=[F]):
                    rep.add(o)
            kviol = [o for o in rep.obls if o.get("verdict") == VIOLATED and o.get("harness")]
            confirm_violations(rep, s, [kk])
            if kviol:
                c18_flow.e2e_writer(s, kviol, exe)
            rep.extra["kani_build_s"] = {"erg_compiler": kk.build_s}
        elif not sviol:
            rep.add(Obligation(key="writer/found", verdict=BROKEN, reason="the value-to-JSON writer could not be identified (stage 1 gave %r)" % F))
        rep.trusted += ["rustc nightly -Zunpretty=mir as the semantics of the source", "engines/mirsem.py + engines/mirflow.py", "Kani 0.68, CBMC 6.11, CaDiCaL",
                        "the RFC 8259 string decoder in props/c18.py (__ref_json_str)"]
        rep.assumptions += [
            "strings longer than the listed width patterns are outside the claim (the writer handles one character at a time; no state is carried between characters)",
            "number formatting is Rust's Display for u64/i32/f64 (decimal; finite floats) - trusted, not decided; Inf/NaN have no JSON notation",
            "containers as *values* (a name bound to a list / record / dict: the recursive arms of the writer) are outside the decided shapes",
            "structure: containers of n <= 2 (thorough 3) elements; the text of a sub-expression is a JSON value by the induction hypothesis; record keys are identifiers (no escaping needed); every binding is public (each chunk's text is non-empty)",
            "models: String::push / push_str / += / with_capacity / len, str::chars, Chars::next, Vec::into_iter / enumerate / next, format! with `{}` placeholders (template bytes read from the MIR constant)",
        ]
        return rep.finish()
    finally:
        s.cleanup()
