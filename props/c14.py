"""C14 — emitted code objects are structurally valid (kernel-level: the line table and the stack counters).

Engine: E2 mir2smt with the heap-lite extension (lazy structs, `Vec<u8>` of concrete length with symbolic elements).  The rustc
MIR of `PyCodeGenerator::push_lnotab`, `stack_inc`, `stack_dec`, `stack_inc_n`, `stack_dec_n` and of the accessors they call
(`cur_block`, `mut_cur_block`, `cur_block_codeobj`, `mut_cur_block_codeobj`, `stack_len`, `lasti`) is executed on an *arbitrary*
current unit: `stack_len`, `stacksize`, `prev_lineno`, `lasti`, `prev_lasti`, the statement's line and the bytes already in the
line table are solver variables.  One step from an arbitrary state satisfying the representation invariant covers emission
histories of any length (for these counters).  Jump targets, index ranges, 3.10+/3.11 line tables, exception tables and the way
each emit_* function calls the counters need HIR-driven emission and are not decided."""
import re
import time

import z3

import mir2smt as M
from common import (BROKEN, HELD, INCONCLUSIVE, VIOLATED, Obligation, Report, Scratch, extract_fn, log)
from native import NativeRun

import c14_rewrite


def struct_fields(src, name):
    m = re.search(r"pub struct %s \{(.*?)\n\}" % name, src, re.S)
    body = re.sub(r"//[^\n]*", "", m.group(1))
    body = re.sub(r"#\[[^\]]*\]", "", body)
    out = []
    for part in M.split_top(body):
        mm = re.match(r"\s*(?:pub(?:\([^)]*\))?\s+)?(\w+)\s*:\s*(.*)$", part.strip(), re.S)
        if mm:
            out.append((mm.group(1), " ".join(mm.group(2).split())))
    return out


def run(tier, seed, only=None):
    rep = Report("C14", tier, seed, "other",
                 "Kernel-level partial claim.  Symbolic execution of the rustc MIR of PyCodeGenerator::push_lnotab and of the stack counters "
                 "(stack_inc, stack_dec, stack_inc_n, stack_dec_n) on an arbitrary current unit (stack_len, stacksize, prev_lineno, lasti, "
                 "prev_lasti, the statement's line, the existing line-table bytes are solver variables): z3 decides that the bytes appended to "
                 "co_lnotab, decoded by CPython's <= 3.9 rule, advance exactly (address delta, line delta) and that the bookkeeping fields end at "
                 "(lasti, line); that the counters keep stacksize >= stack_len with stack_len exact, and that an underflow reaches crash() "
                 "instead of wrapping.  Jump patching, index ranges, the 3.10+/3.11 tables and the callers of the counters are not decided.",
                 partial=bool(only))
    rep.trusted += ["rustc nightly -Zunpretty=mir as the semantics of the source", "engines/mir2smt.py (heap-lite: lazy structs, Vec<u8> model)", "z3 " + z3.get_version_string()]
    s = Scratch("c14")
    try:
        text, dt, err, rc = M.dump_mir(s, "erg_compiler", overflow_checks=True, extra_cargo=["--lib"])
        if rc != 0 or len(text) < 1000:
            log("MIR dump failed:\n" + err[-3000:])
            rep.add(Obligation(key="mir-dump", verdict=BROKEN, reason="cargo +nightly rustc -Zunpretty=mir failed"))
            return rep.finish()
        log("  MIR dump erg_compiler: %.0fs, %d MB" % (dt, len(text) >> 20))
        fns = M.parse_mir(text, want=["codegen::"])
        cg = s.read("crates/erg_compiler/codegen.rs")
        co = s.read("crates/erg_compiler/ty/codeobj.rs")
        UF = struct_fields(cg, "PyCodeGenUnit")
        CF = struct_fields(co, "CodeObj")
        ui = {n: i for i, (n, _) in enumerate(UF)}
        ci = {n: i for i, (n, _) in enumerate(CF)}
        need_u = ["codeobj", "stack_len", "prev_lineno", "lasti", "prev_lasti"]
        need_c = ["stacksize", "lnotab"]
        if any(n not in ui for n in need_u) or any(n not in ci for n in need_c):
            rep.add(Obligation(key="layout", verdict=BROKEN, reason="PyCodeGenUnit / CodeObj fields not found: %s %s" % (list(ui), list(ci))))
            return rep.finish()
        for fn in ("push_lnotab", "stack_inc", "stack_dec", "stack_inc_n", "stack_dec_n", "cur_block", "mut_cur_block", "stack_len", "lasti"):
            rep.add_function("PyCodeGenerator::" + fn, "crates/erg_compiler/codegen.rs", extract_fn(cg, fn))
        enums = {"Option": ["None", "Some"], "Result": ["Ok", "Err"]}

        def find(short):
            c = [f for f in fns.values() if f.short == short and "codegen::<impl" in f.name and "::{closure" not in f.name]
            return c[0] if len(c) == 1 else None

        def new_interp(lnotab_items, tag):
            I = M.Interp(fns, enums, max_paths=4000, timeout_s=300)
            I.timeout_s = 300
            cobj = M.Lazy("ty::codeobj::CodeObj", tag + ".co", {ci["stacksize"]: I.sym("u32", tag + "_stacksize"), ci["lnotab"]: M.VecU8(lnotab_items)})
            unit = M.Lazy("codegen::PyCodeGenUnit", tag + ".unit", {
                ui["codeobj"]: cobj, ui["stack_len"]: I.sym("u32", tag + "_stack_len"), ui["prev_lineno"]: I.sym("u32", tag + "_prev_lineno"),
                ui["lasti"]: I.sym("usize", tag + "_lasti"), ui["prev_lasti"]: I.sym("usize", tag + "_prev_lasti")})
            ln = M.Enum("std::option::Option<u32>", z3.BitVec(tag + "_ln_some", 64), {"Some": {0: I.sym("u32", tag + "_ln")}})

            def m_last(I_, st, fr, callee, args, dty, work, at):
                return M.Enum(dty, M.bv(64, 1), {"Some": {0: M.Ref(0, "_unit", (), mut=("last_mut" in callee))}})

            def m_ln_begin(I_, st, fr, callee, args, dty, work, at):
                return ln

            def m_crash(I_, st, fr, callee, args, dty, work, at):
                I_.outcomes.append(M.Outcome("panic", st.pc, msg="crash: codegen aborts with an internal error", where=fr.fn.short + " " + fr.bb))
                return M.DIVERGE
            I.models[r"Stream<PyCodeGenUnit>>::last(_mut)?$"] = m_last
            I.models[r"::ln_begin$"] = m_ln_begin
            I.models[r"PyCodeGenerator::crash$"] = m_crash
            I.opaque_calls = [r"compiler_bug", r"write_to_stderr", r"Clone>::clone$", r"::loc$", r"type_name", r"Input", r"fmt::", r"format", r"Display"]
            return I, unit, cobj, ln

        def fld(v, *idx):
            for i in idx:
                v = v.fields[i]
            return v
        solver = z3.Solver()
        solver.set("timeout", 120000)
        nq = [0]
        qs = [0.0]

        def check(conds):
            t0 = time.time()
            solver.push()
            for c in conds:
                solver.add(c)
            r = solver.check()
            mdl = solver.model() if r == z3.sat else None
            solver.pop()
            nq[0] += 1
            qs[0] += time.time() - t0
            return str(r), mdl
        self_arg = M.Opaque("&mut codegen::PyCodeGenerator", "self")

        # ------------------------------------------------------------------ stack counters: one step from any valid state
        def counters(short, has_n):
            fn = find(short)
            role = short
            base = dict(engine="mir2smt heap-lite (MIR -> z3 %s)" % z3.get_version_string(), solver="z3", functions=["PyCodeGenerator::" + short],
                        symbolic=["stack_len: u32", "stacksize: u32"] + (["n: usize"] if has_n else []), bounds={"pre-state": "stacksize >= stack_len (representation invariant); stacksize, n < 2^31"})
            if fn is None:
                rep.add(Obligation(base, key=role + "/*", verdict=BROKEN, reason="function not found in the MIR dump"))
                return
            I, unit, cobj, ln = new_interp((), short)
            sl0, ss0 = fld(unit, ui["stack_len"]).t, fld(cobj, ci["stacksize"]).t
            args = [self_arg]
            n = None
            if has_n:
                nv = I.sym("usize", short + "_n")
                n = nv.t
                args.append(nv)
            # representation invariant and realistic magnitudes (CPython itself limits the stack depth far below 2^31)
            inv = [z3.UGE(ss0, sl0), z3.ULT(ss0, 1 << 31)] + ([z3.ULT(n, 1 << 31)] if n is not None else [])
            outs = I.run(fn, args, inv, extra_locals={"_unit": unit})
            unsup = [o for o in outs if o.kind == "unsupported"]
            if unsup:
                rep.add(Obligation(base, key=role + "/*", verdict=INCONCLUSIVE, reason="unsupported-construct: %s @%s" % (unsup[0].msg[:160], unsup[0].where), stubs=sorted(I.models_used)))
                return
            base["stubs"] = sorted(I.models_used)
            rets = [o for o in outs if o.kind == "return"]
            pans = [o for o in outs if o.kind == "panic"]
            to_report = []

            def ob(key, neg_conds_per_path, why):
                """neg_conds_per_path(o, sl1, ss1) -> list of conditions whose satisfiability is a violation"""
                found = None
                for o in rets:
                    u1 = o.locals["_unit"]
                    sl1, ss1 = fld(u1, ui["stack_len"]).t, fld(fld(u1, ui["codeobj"]), ci["stacksize"]).t
                    r, mdl = check(inv + list(o.pc) + neg_conds_per_path(o, sl1, ss1))
                    if r == "sat":
                        found = mdl
                        break
                    if r != "unsat":
                        rep.add(Obligation(base, key="%s/%s" % (role, key), verdict=INCONCLUSIVE, reason="solver " + r))
                        return
                if found is None:
                    rep.add(Obligation(base, key="%s/%s" % (role, key), verdict=HELD, reason=why, vacuity={"returning_paths": len(rets)}))
                else:
                    vals = {"stack_len": found.eval(sl0, model_completion=True).as_long(), "stacksize": found.eval(ss0, model_completion=True).as_long()}
                    if n is not None:
                        vals["n"] = found.eval(n, model_completion=True).as_long()
                    rep.add(Obligation(base, key="%s/%s" % (role, key), verdict=VIOLATED, model=vals, reason="%s fails for %s" % (why, vals), replay_note="one-step counterexample from a state satisfying stacksize >= stack_len"))
            if not rets:
                rep.add(Obligation(base, key=role + "/*", verdict=BROKEN, reason="no returning path"))
                return
            possible_dec = (z3.UGE(z3.ZeroExt(32, sl0), n) if n is not None else z3.UGE(sl0, 1))
            delta = (z3.ZeroExt(32, sl0) + (z3.BitVecVal(1, 64) if not has_n else n)) if "inc" in short else (z3.ZeroExt(32, sl0) - (z3.BitVecVal(1, 64) if not has_n else n))
            ob("exact", lambda o, sl1, ss1: [z3.ZeroExt(32, sl1) != delta], "stack_len after the call is exactly stack_len %s %s (as a mathematical integer)" % ("+" if "inc" in short else "-", "n" if has_n else "1"))
            ob("invariant", lambda o, sl1, ss1: [z3.ULT(ss1, sl1)], "stacksize >= stack_len afterwards")
            if "dec" in short:
                ob("no-wrap", lambda o, sl1, ss1: [z3.Not(possible_dec)], "a decrement below zero never returns (it aborts)")
            if "inc" in short:
                ob("max", lambda o, sl1, ss1: [ss1 != z3.If(z3.UGT(sl1, ss0), sl1, ss0)], "stacksize is max(old stacksize, new stack_len)")
            else:
                ob("size-kept", lambda o, sl1, ss1: [ss1 != ss0], "a decrement never lowers the recorded maximum")
            # panics: an underflow must reach crash(), never an arithmetic panic / wrap
            # an impossible decrement must abort (crash(), or a panic while the crash message is built) and never wrap;
            # any panic on a *possible* operation is a violation
            possible = z3.BoolVal(True) if "inc" in short else (z3.UGE(z3.ZeroExt(32, sl0), n) if n is not None else z3.UGE(sl0, 1))
            arith = [o for o in pans if "crash" not in o.msg]
            feas = []
            for o in arith:
                r, mdl = check(inv + list(o.pc) + [possible])
                if r == "sat":
                    feas.append((o, mdl))
            if feas:
                o, mdl = feas[0]
                vals = {"stack_len": mdl.eval(sl0, model_completion=True).as_long(), "stacksize": mdl.eval(ss0, model_completion=True).as_long()}
                if n is not None:
                    vals["n"] = mdl.eval(n, model_completion=True).as_long()
                rep.add(Obligation(base, key="%s/no-arith-panic" % role, verdict=VIOLATED, model=vals,
                                   reason="an arithmetic panic (dev) / wrap (release) is reachable: %s, e.g. %s" % (o.msg, vals)))
            else:
                rep.add(Obligation(base, key="%s/no-arith-panic" % role, verdict=HELD, reason="no overflow/underflow panic is reachable; an impossible decrement reaches crash()"))
        if not only or "stack" in only:
            for short, has_n in (("stack_inc", False), ("stack_dec", False), ("stack_inc_n", True), ("stack_dec_n", True)):
                counters(short, has_n)

        # ------------------------------------------------------------------ push_lnotab
        def lnotab(init_len):
            fn = find("push_lnotab")
            tag = "ln%d" % init_len
            role = "push_lnotab/existing=%d" % init_len
            base = dict(engine="mir2smt heap-lite (MIR -> z3 %s)" % z3.get_version_string(), solver="z3", functions=["PyCodeGenerator::push_lnotab"],
                        symbolic=["prev_lineno: u32", "prev_lasti, lasti: usize", "the statement's first line: Option<u32>", "%d existing line-table bytes" % init_len],
                        bounds={"address delta": "<= 600", "line delta": "<= 400", "existing_bytes": init_len})
            if fn is None:
                rep.add(Obligation(base, key=role + "/*", verdict=BROKEN, reason="function not found in the MIR dump"))
                return
            I0 = M.Interp(fns, enums)
            items = [I0.sym("u8", "%s_b%d" % (tag, k)) for k in range(init_len)]
            I, unit, cobj, ln = new_interp(items, tag)
            pl, pa, la = fld(unit, ui["prev_lineno"]).t, fld(unit, ui["prev_lasti"]).t, fld(unit, ui["lasti"]).t
            lnv, lns = ln.payload["Some"][0].t, ln.discr
            pre = [z3.Or(lns == 0, lns == 1), z3.UGE(la, pa), z3.ULE(la - pa, 600), z3.ULE(la, 1 << 20), z3.ULE(pl, 1 << 20), z3.ULE(lnv, 1 << 20),
                   z3.Implies(lns == 1, z3.ULE(lnv - pl, 400))]
            # existing bytes: a well-formed table (line increments are non-negative signed bytes)
            for k in range(1, init_len, 2):
                pre.append(z3.ULE(items[k].t, 127))
            expr = M.Opaque("&hir::Expr", "expr")
            outs = I.run(fn, [self_arg, expr], pre, extra_locals={"_unit": unit})
            unsup = [o for o in outs if o.kind == "unsupported"]
            if unsup:
                rep.add(Obligation(base, key=role + "/*", verdict=INCONCLUSIVE, reason="unsupported-construct: %s @%s" % (unsup[0].msg[:160], unsup[0].where), stubs=sorted(I.models_used)))
                return
            base["stubs"] = sorted(I.models_used)
            rets = [o for o in outs if o.kind == "return"]
            if not rets:
                rep.add(Obligation(base, key=role + "/*", verdict=BROKEN, reason="no returning path"))
                return
            line = z3.If(lns == 1, lnv, z3.BitVecVal(0, 32))
            found = {}
            reach_adv = 0
            for o in rets:
                r, _m = check(pre + list(o.pc))
                if r != "sat":
                    continue
                u1 = o.locals["_unit"]
                tab = fld(fld(u1, ui["codeobj"]), ci["lnotab"]).items
                new = tab[init_len:] if len(tab) >= init_len else None
                pl1, pa1 = fld(u1, ui["prev_lineno"]).t, fld(u1, ui["prev_lasti"]).t
                adv = z3.UGT(line, pl)

                def viol(key, conds, why):
                    if key in found:
                        return
                    r2, m2 = check(pre + list(o.pc) + conds)
                    if r2 == "sat":
                        found[key] = (why, m2, len(tab))
                    elif r2 != "unsat":
                        found.setdefault("?" + key, ("solver " + r2, None, 0))
                # the prefix is untouched except (possibly) its last byte; decode the whole table relative to the old one
                if new is None:
                    found.setdefault("prefix", ("the existing table shrank", _m, len(tab)))
                    continue
                # when the statement does not advance the line, nothing changes
                viol("no-advance", [z3.Not(adv), z3.Or(pl1 != pl, pa1 != pa, z3.BoolVal(len(tab) != init_len))],
                     "a statement that does not advance the line leaves table and bookkeeping unchanged")
                if len(tab) % 2 != 0:
                    viol("pairs", [adv], "co_lnotab consists of (address increment, line increment) byte pairs")
                    continue
                reach_adv += 1
                # CPython <= 3.9: addr += b[2k]; line += signed(b[2k+1]) over the *new* pairs plus the change of the last old line byte
                addr = z3.BitVecVal(0, 64)
                lined = z3.BitVecVal(0, 64)
                for k in range(0, len(new), 2):
                    addr = addr + z3.ZeroExt(56, new[k].t)
                    lined = lined + z3.SignExt(56, new[k + 1].t)
                if init_len >= 2:
                    lined = lined + z3.SignExt(56, tab[init_len - 1].t) - z3.SignExt(56, items[init_len - 1].t)
                    addr = addr + z3.ZeroExt(56, tab[init_len - 2].t) - z3.ZeroExt(56, items[init_len - 2].t)
                    for k in range(init_len - 2):
                        viol("prefix", [adv, tab[k].t != items[k].t], "earlier entries of the table are not rewritten")
                viol("line-delta", [adv, lined != z3.ZeroExt(32, line - pl)], "the line increments written add up to (line - prev_lineno)")
                viol("addr-delta", [adv, addr != (la - pa)], "the address increments written add up to (lasti - prev_lasti)")
                viol("bookkeeping", [adv, z3.Or(pl1 != line, pa1 != la)], "afterwards prev_lineno is the statement's line and prev_lasti is lasti")
                for k in range(1, len(new), 2):
                    pass
            pans = [o for o in outs if o.kind == "panic"]
            for o in pans:
                r, mdl = check(pre + list(o.pc))
                if r == "sat" and "crash" not in o.msg:
                    found.setdefault("no-panic", ("a panic is reachable: %s" % o.msg, mdl, 0))
            if reach_adv == 0 and "pairs" not in found:
                rep.add(Obligation(base, key=role + "/*", verdict=BROKEN, reason="no advancing path reachable (vacuous)"))
                return
            for key, why in (("no-advance", "a statement that does not advance the line changes nothing"), ("pairs", "the table stays a sequence of byte pairs"),
                             ("prefix", "earlier entries are not rewritten"), ("line-delta", "line increments add up to the line delta (CPython <= 3.9 decoding, signed bytes)"),
                             ("addr-delta", "address increments add up to the address delta"), ("bookkeeping", "prev_lineno / prev_lasti end at (line, lasti)"),
                             ("no-panic", "no panic for deltas within the stated bounds")):
                if key in found:
                    w, mdl, tl = found[key]
                    vals = {}
                    if mdl is not None:
                        vals = {"prev_lineno": mdl.eval(pl, model_completion=True).as_long(), "line": mdl.eval(line, model_completion=True).as_long(),
                                "prev_lasti": mdl.eval(pa, model_completion=True).as_long(), "lasti": mdl.eval(la, model_completion=True).as_long(),
                                "existing": [mdl.eval(x.t, model_completion=True).as_long() for x in items]}
                    rep.add(Obligation(base, key="%s/%s" % (role, key), verdict=VIOLATED, model=vals, reason="%s fails, e.g. %s" % (w, vals)))
                elif ("?" + key) in found:
                    rep.add(Obligation(base, key="%s/%s" % (role, key), verdict=INCONCLUSIVE, reason=found["?" + key][0]))
                else:
                    rep.add(Obligation(base, key="%s/%s" % (role, key), verdict=HELD, reason=why, vacuity={"advancing_paths": reach_adv, "paths": len(rets)}))
        if not only or "lnotab" in only:
            for L in ((0, 2) if tier == "quick" else (0, 2, 4)):
                lnotab(L)
        # ------------------------------------------------------------------ stage 2: rewrite_captured_fast (engine mirsem)
        rw_cases = []
        if not only or "rewrite" in only:
            rw_cases, _h = c14_rewrite.stage(rep, s, text, tier, only)
        rw_obs = {id(ob) for ob, _c in rw_cases}
        # ------------------------------------------------------------------ native replay of unlisted counterexamples
        todo = [o for o in rep.obls if o.get("verdict") == VIOLATED and o.get("model") and not rep.known.lookup(rep.prop, o["key"]) and id(o) not in rw_obs]
        if todo or rw_cases:
            helpers = """
    fn __gen(stack_len: u32, stacksize: u32, prev_lineno: u32, lasti: usize, prev_lasti: usize, lnotab: Vec<u8>) -> PyCodeGenerator {
        let mut cfg = ErgConfig::default();
        cfg.target_version = Some(erg_common::python_util::PythonVersion::new(3, Some(9), Some(0)));
        let mut g = PyCodeGenerator::new(cfg);
        let ver = g.py_version;
        g.units.push(PyCodeGenUnit::new(0, ver, vec![], 0, "f.er", "<module>", 1, 0));
        { let u = g.mut_cur_block(); u.stack_len = stack_len; u.prev_lineno = prev_lineno; u.lasti = lasti; u.prev_lasti = prev_lasti;
          u.codeobj.stacksize = stacksize; u.codeobj.lnotab = lnotab; }
        g
    }
    fn __show(g: &PyCodeGenerator) -> String {
        format!("stack_len={} stacksize={} prev_lineno={} prev_lasti={} lnotab={:?}", g.cur_block().stack_len, g.cur_block_codeobj().stacksize,
                g.cur_block().prev_lineno, g.cur_block().prev_lasti, g.cur_block_codeobj().lnotab)
    }
"""
            nr = NativeRun(s, "erg_compiler", "crates/erg_compiler/codegen.rs", helpers=helpers + c14_rewrite.HELPERS)
            for j, (ob_, call_) in enumerate(rw_cases):
                nr.add("w%d" % j, call_)
            for i, o in enumerate(todo):
                m = o["model"]
                if o["key"].startswith("push_lnotab"):
                    call = ("let mut g = __gen(0, 0, %d, %d, %d, vec!%s); let e = crate::hir::Expr::Literal(crate::hir::Literal::new(ValueObj::Int(1), "
                            "erg_parser::token::Token::new(erg_parser::token::TokenKind::NatLit, \"1\", %d, 0))); g.push_lnotab(&e); __show(&g)"
                            % (m["prev_lineno"], m["lasti"], m["prev_lasti"], m["existing"], m["line"]))
                else:
                    fn_ = o["key"].split("/")[0]
                    arg = "%d" % m["n"] if "n" in m else ""
                    call = "let mut g = __gen(%d, %d, 1, 0, 0, vec![]); g.%s(%s); __show(&g)" % (m["stack_len"], m["stacksize"], fn_, arg)
                nr.add("r%d" % i, call)
            res, _dt = nr.run()
            for j, (ob_, call_) in enumerate(rw_cases):
                rep.replayed += 1
                c14_rewrite.judge(ob_, None if res is None else res.get("w%d" % j))
            for i, o in enumerate(todo):
                rep.replayed += 1
                m = o["model"]
                if res is None:
                    o["replay_note"] = "native replay unavailable (build failed): " + nr.logs.get("dev", "")[-200:]
                    continue
                got = res.get("r%d" % i, "")
                o["native_replay"] = got
                ok = None
                if got.startswith("PANIC"):
                    ok = o["key"].endswith(("no-panic", "no-arith-panic"))
                else:
                    mm = re.search(r"stack_len=(\d+) stacksize=(\d+) prev_lineno=(\d+) prev_lasti=(\d+) lnotab=\[(.*)\]", got)
                    if mm:
                        sl1, ss1, pl1, pa1 = (int(mm.group(k)) for k in (1, 2, 3, 4))
                        tab = [int(x) for x in mm.group(5).split(",") if x.strip()]
                        kind = o["key"].rsplit("/", 1)[-1]
                        if o["key"].startswith("push_lnotab"):
                            ex = m["existing"]
                            new = tab[len(ex):]
                            adv = m["line"] > m["prev_lineno"]
                            signed = lambda b: b - 256 if b > 127 else b
                            if len(tab) % 2:
                                ok = kind == "pairs"
                            else:
                                addr = sum(new[0::2]) + ((tab[len(ex) - 2] - ex[-2]) if len(ex) >= 2 else 0)
                                lined = sum(signed(b) for b in new[1::2]) + ((signed(tab[len(ex) - 1]) - signed(ex[-1])) if len(ex) >= 2 else 0)
                                ok = {"line-delta": adv and lined != m["line"] - m["prev_lineno"], "addr-delta": adv and addr != m["lasti"] - m["prev_lasti"],
                                      "bookkeeping": adv and (pl1 != m["line"] or pa1 != m["lasti"]), "prefix": tab[:max(len(ex) - 2, 0)] != ex[:max(len(ex) - 2, 0)],
                                      "no-advance": (not adv) and (tab != ex or pl1 != m["prev_lineno"] or pa1 != m["prev_lasti"])}.get(kind)
                        else:
                            n = m.get("n", 1)
                            inc = "inc" in o["key"]
                            want = m["stack_len"] + n if inc else m["stack_len"] - n
                            ok = {"exact": sl1 != want, "invariant": ss1 < sl1, "max": ss1 != max(m["stacksize"], sl1), "size-kept": ss1 != m["stacksize"],
                                  "no-wrap": (not inc) and m["stack_len"] < n}.get(kind)
                if ok is False:
                    o["verdict"] = BROKEN
                    o["reason"] = "counterexample did not reproduce natively (%s): %s" % (got[:120], o["reason"])
        rep.assumptions += [
            "the current unit is arbitrary (one inductive step); pre-state invariant for the counters: stacksize >= stack_len",
            "push_lnotab: lasti >= prev_lasti, address delta <= 600, line delta <= 400 (both loops run up to 3 times), existing line increments are non-negative; decoding rule of CPython <= 3.9 (lnotab); the 3.10+ line table formats are outside",
            "self.units.last()/last_mut() return the current unit (model of PyCodeGenStack as Stream); expr.ln_begin() is an arbitrary Option<u32>; crash() aborts; diagnostics construction is opaque",
        ]
        rep.extra["z3_queries"] = nq[0]
        for o in rep.obls:
            o.setdefault("solver_s", round(qs[0] / max(nq[0], 1), 3))
        return rep.finish()
    finally:
        s.cleanup()
