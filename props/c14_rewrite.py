"""C14, stage 2 — cell-variable rewriting of already emitted code (targets before 3.11).

When an inner function captures a local, `PyCodeGenerator::rewrite_captured_fast` patches the bytes emitted so far: every
`LOAD_FAST old` / `STORE_FAST old` of that variable must become `LOAD_DEREF new` / `STORE_DEREF new`, and nothing else may
change (a wrong slot makes the code object read or write another variable's cell; CPython does not validate it).

Engine: `mirsem` — the function's rustc MIR is executed from its entry on a code buffer of k instruction pairs (k = 1, 2;
thorough 3) whose 2k bytes are symbolic integers, one cell variable that the inner code object captures (a solver boolean),
symbolic slots `old` (position in co_varnames) and `new` (position in co_cellvars) below 256.  The loop `while let Some([op,
arg]) = code.get_mut(i..=i+1)` runs concretely over the buffer (indices are concrete, contents symbolic); `Opcode310::try_from`
is a contract (a defined opcode byte yields the variant with that discriminant; 124 / 125 / 136 / 137 are the numbers of
LOAD_FAST / STORE_FAST / LOAD_DEREF / STORE_DEREF in every CPython from 3.7 to 3.10, which C16 decides for the tables).  z3
decides, per pair, the three-way specification above."""
import re
import time

import z3

import mir2smt as M
import mirsem as S
from common import (BROKEN, HELD, INCONCLUSIVE, VIOLATED, Obligation, extract_fn, log)
from mirflow import DISC, Ref, Unsupported, const, fun

LOAD_FAST, STORE_FAST, LOAD_DEREF, STORE_DEREF = 124, 125, 136, 137


def struct_fields(src, name):
    st = re.search(r"pub struct %s[^{]*\{(.*?)\n\}" % name, src, re.S)
    return re.findall(r"^\s*(?:pub(?:\([^)]*\))?\s+)?(\w+)\s*:", st.group(1), re.M) if st else []


def models(W, used):
    def m(name):
        def deco(f):
            def g(flow, P, callee, args):
                used.add(name)
                return f(flow, P, callee, args)
            return g
        return deco

    def opt(x):
        return ("agg", "Option::Some", [x]) if x is not None else ("agg", "Option::None", [])

    @m("target version below 3.11 (`py_version.minor >= Some(11)` is false): the rewriting pass is active")
    def ver_ge(flow, P, callee, args):
        return S.FALSE

    @m("cur_block_codeobj / mut_cur_block_codeobj / mut_cur_block: the code object (unit) being generated")
    def codeobj(flow, P, callee, args):
        return Ref("p_codeobj")

    def unit(flow, P, callee, args):
        return Ref("p_unit")

    @m("Vec<Str> of names: clone / into_iter / next / deref / iter / any / position over the one captured cell variable (std contract); its slots in co_varnames and co_cellvars are solver integers")
    def names_clone(flow, P, callee, args):
        v = flow.deref_all(P, args[0])
        if isinstance(v, tuple) and v[0] == "names" and v[1] == "cellvars":
            return ("vec", [Ref("p_cv")])
        raise Unsupported("clone of %r" % (v,))

    def into_iter(flow, P, callee, args):
        v = args[0]
        if isinstance(v, tuple) and v[0] == "vec":
            return ("iter", [flow.read(P, e.local, list(e.path)) for e in v[1]], 0)
        return v

    def it_next(flow, P, callee, args):
        r = args[0]
        it = flow.read(P, r.local, list(r.path))
        if not (isinstance(it, tuple) and it[0] == "iter"):
            raise Unsupported("next on %r" % (it,))
        if it[2] < len(it[1]):
            flow.write(P, r.local, list(r.path), ("iter", it[1], it[2] + 1))
            return opt(it[1][it[2]])
        return opt(None)

    def ident(flow, P, callee, args):
        return args[0]

    def names_iter(flow, P, callee, args):
        v = flow.deref_all(P, args[0])
        if isinstance(v, tuple) and v[0] == "names":
            return ("niter", v[1])
        raise Unsupported("iter of %r" % (v,))

    def names_any(flow, P, callee, args):
        it = flow.deref_all(P, args[0])
        if isinstance(it, tuple) and it[0] == "niter" and it[1] == "freevars":
            return flow.mkbool(P, W["captured"])
        raise Unsupported("any over %r" % (it,))

    def names_position(flow, P, callee, args):
        it = flow.deref_all(P, args[0])
        if isinstance(it, tuple) and it[0] == "niter" and it[1] in ("varnames", "cellvars"):
            return opt(("sint", W["old"] if it[1] == "varnames" else W["new"]))
        raise Unsupported("position over %r" % (it,))

    def unwrap(flow, P, callee, args):
        o = args[0]
        if isinstance(o, tuple) and o[0] == "agg" and o[1] == "Option::Some":
            return o[2][0]
        raise Unsupported("unwrap of %r" % (o,))

    @m("Vec<u8> as DerefMut / RangeInclusive::new / <[u8]>::get_mut(range): a window of a buffer of known length, contents symbolic (std contract)")
    def range_new(flow, P, callee, args):
        return ("agg", "RangeInclusive", [args[0], args[1]])

    def get_mut(flow, P, callee, args):
        v = flow.deref_all(P, args[0])
        rg = args[1]
        if not (isinstance(v, tuple) and v[0] == "vec" and isinstance(rg, tuple) and rg[0] == "agg" and all(flow.is_int(x) for x in rg[2])):
            raise Unsupported("get_mut(%r, %r)" % (v, rg))
        a, b = rg[2][0][1], rg[2][1][1]
        if a <= b < len(v[1]):
            return opt(("slice", list(v[1][a:b + 1])))
        return opt(None)

    @m("Opcode310::try_from(byte): Ok(variant whose discriminant is the byte) for a defined opcode byte, 124 and 125 are defined (contract; the tables are decided under C16)")
    def try_from(flow, P, callee, args):
        b = args[0]
        if not flow.is_num(b):
            raise Unsupported("try_from of %r" % (b,))
        res = flow.fresh("tf")
        inner = fun("field0", 1)(fun("as_Ok", 1)(res))
        P.pc.append(z3.Or(DISC(res) == 0, DISC(res) == 1))
        P.pc.append(DISC(inner) == flow.num(b))
        P.pc.append(z3.Implies(z3.Or(flow.num(b) == LOAD_FAST, flow.num(b) == STORE_FAST), DISC(res) == 0))
        return res

    return [
        (r"^<Option<u8> as PartialOrd>::ge$", ver_ge),
        (r"PyCodeGenerator::(cur_block_codeobj|mut_cur_block_codeobj)$", codeobj),
        (r"PyCodeGenerator::(mut_cur_block|cur_block)$", unit),
        (r"^<Vec<erg_common::Str> as Clone>::clone$", names_clone),
        (r"^<Vec<erg_common::Str> as IntoIterator>::into_iter$", into_iter),
        (r"IntoIter<erg_common::Str> as Iterator>::next$", it_next),
        (r"^<Vec<erg_common::Str> as Deref>::deref$|^<Vec<u8> as DerefMut>::deref_mut$|^<Vec<u8> as Deref>::deref$", ident),
        (r"slice::<impl \[erg_common::Str\]>::iter$", names_iter),
        (r"Iter<'_, erg_common::Str> as Iterator>::any::", names_any),
        (r"Iter<'_, erg_common::Str> as Iterator>::position::", names_position),
        (r"^Option::<usize>::unwrap$", unwrap),
        (r"RangeInclusive::<usize>::new$", range_new),
        (r"slice::<impl \[u8\]>::get_mut::<std::ops::RangeInclusive<usize>>$", get_mut),
        (r"^<Opcode310 as TryFrom<u8>>::try_from$", try_from),
    ]


HELPERS = r"""
    fn __rw(code: Vec<u8>, old: usize, new: usize, captured: bool) -> String {
        let mut cfg = ErgConfig::default();
        cfg.target_version = Some(erg_common::python_util::PythonVersion::new(3, Some(10), Some(0)));
        let mut g = PyCodeGenerator::new(cfg);
        let ver = g.py_version;
        g.units.push(PyCodeGenUnit::new(0, ver, vec![], 0, "f.er", "<module>", 1, 0));
        {
            let c = &mut g.mut_cur_block().codeobj;
            c.code = code;
            c.varnames = (0..old).map(|i| Str::from(format!("v{i}"))).chain(std::iter::once(Str::ever("cv"))).collect();
            c.cellvars = (0..new).map(|i| Str::from(format!("c{i}"))).chain(std::iter::once(Str::ever("cv"))).collect();
        }
        let mut inner = CodeObj::empty(vec![], 0, "f.er", "<lambda>", 1, 0);
        if captured { inner.freevars = vec![Str::ever("cv")]; }
        g.rewrite_captured_fast(&inner);
        format!("{:?}", g.cur_block_codeobj().code)
    }
"""


def stage(rep, s, text, tier, only):
    """returns ([(obligation, rust call)], helper text)"""
    gsrc = s.read("crates/erg_compiler/codegen.rs")
    csrc = s.read("crates/erg_compiler/ty/codeobj.rs")
    osrc = s.read("crates/erg_common/opcode310.rs")
    body = extract_fn(gsrc, "rewrite_captured_fast")
    rep.add_function("PyCodeGenerator::rewrite_captured_fast", "crates/erg_compiler/codegen.rs", body)
    cf = struct_fields(csrc, "CodeObj")
    fns = M.parse_mir(text, want=["::rewrite_captured_fast"])
    mains = [f for f in fns.values() if f.short == "rewrite_captured_fast"]
    consts = {mm.group(1): int(mm.group(2)) for mm in re.finditer(r"^\s*(\w+)\s*=\s*(\d+),", osrc, re.M)}
    if len(mains) != 1 or not all(x in cf for x in ("code", "varnames", "freevars", "cellvars")) or body is None:
        rep.add(Obligation(key="rewrite_captured_fast/mir", verdict=BROKEN, reason="rewrite_captured_fast not found uniquely in the MIR dump (%d) or CodeObj fields unreadable" % len(mains)))
        return [], HELPERS
    numbers_ok = (consts.get("LOAD_FAST"), consts.get("STORE_FAST"), consts.get("LOAD_DEREF"), consts.get("STORE_DEREF")) == (LOAD_FAST, STORE_FAST, LOAD_DEREF, STORE_DEREF)
    solver = z3.Solver()
    solver.set("timeout", 60000)

    def check(conds):
        solver.push()
        solver.add(*conds)
        r = solver.check()
        mdl = solver.model() if r == z3.sat else None
        solver.pop()
        return str(r), mdl
    used = set()
    out = []
    for k in ((1, 2) if tier == "quick" else (1, 2, 3)):
        key = "rewrite_captured_fast/pairs=%d" % k
        if only and not any(o in key for o in only.split(",")):
            continue
        ob = Obligation(dict(engine="mirsem (MIR -> z3 %s)" % z3.get_version_string(), solver="z3", functions=["PyCodeGenerator::rewrite_captured_fast"],
                             shape="code buffer of %d instruction pairs, one cell variable" % k,
                             symbolic=["every byte of the buffer (0..255)", "the variable's slot in co_varnames and in co_cellvars (0..255)", "whether the inner code object captures it"],
                             bounds={"pairs": k, "slots": "< 256 (no EXTENDED_ARG)"}), key=key)
        t0 = time.time()
        try:
            W = {"old": z3.Int("old"), "new": z3.Int("new"), "captured": z3.Bool("captured")}
            flow = S.SemFlow(fns, mains[0], models(W, used), {"Option": ["None", "Some"], "Result": ["Ok", "Err"]})
            for nm, val in consts.items():
                flow.named_consts["erg_common::opcode310::Opcode310::%s::{constant#0}" % nm] = ("int", val)
            P0 = S.Path()
            P0.pc = list(S.BASE_AXIOMS) + [W["old"] >= 0, W["old"] < 256, W["new"] >= 0, W["new"] < 256]
            byts = [z3.Int("b%d" % i) for i in range(2 * k)]
            places = []
            for i, b in enumerate(byts):
                P0.pc.append(z3.And(b >= 0, b < 256))
                P0.locals["p_b%d" % i] = ("sint", b)
                places.append(Ref("p_b%d" % i))

            def cobj(tagged):
                f = [const("cf_%s_%d" % (tagged, i)) for i in range(len(cf))]
                f[cf.index("varnames")] = ("names", "varnames")
                f[cf.index("cellvars")] = ("names", "cellvars")
                f[cf.index("freevars")] = ("names", "freevars")
                if tagged == "cur":
                    f[cf.index("code")] = ("vec", places)
                return ("agg", "CodeObj", f)
            P0.locals["p_codeobj"] = cobj("cur")
            P0.locals["p_inner"] = cobj("inner")
            P0.locals["p_unit"] = const("unit_state")
            P0.locals["p_cv"] = const("cellvar_name")
            pre = dict(P0.locals)
            pre.update({"_1": const("gen"), "_2": Ref("p_inner")})
            outs = flow.run("bb0", stop_at=(), pre=pre, pc=P0.pc)
            npaths, cex, verdict, reason = 0, None, HELD, ""
            for Q, end in outs:
                if end != "return" or check(Q.pc)[0] != "sat":
                    continue
                npaths += 1
                fin = []
                for i in range(2 * k):
                    v = Q.locals["p_b%d" % i]
                    if not flow.is_num(v):
                        raise Unsupported("byte %d became %r" % (i, v))
                    fin.append(flow.num(v))
                spec = []
                for j in range(k):
                    op, arg, op2, arg2 = byts[2 * j], byts[2 * j + 1], fin[2 * j], fin[2 * j + 1]
                    hit = z3.And(W["captured"], arg == W["old"])
                    spec.append(z3.If(z3.And(hit, op == LOAD_FAST), z3.And(op2 == LOAD_DEREF, arg2 == W["new"]),
                                      z3.If(z3.And(hit, op == STORE_FAST), z3.And(op2 == STORE_DEREF, arg2 == W["new"]), z3.And(op2 == op, arg2 == arg))))
                r1, mdl = check(Q.pc + [z3.Not(z3.And(spec))])
                if r1 == "sat" and cex is None:
                    ev = lambda e: mdl.eval(e, model_completion=True)
                    cex = dict(code=[ev(b).as_long() for b in byts], old=ev(W["old"]).as_long(), new=ev(W["new"]).as_long(), captured=z3.is_true(ev(W["captured"])),
                               got=[ev(x).as_long() for x in fin])
                    verdict = VIOLATED
                elif r1 not in ("sat", "unsat") and verdict == HELD:
                    verdict, reason = INCONCLUSIVE, "solver " + r1
            ob["queries"] = flow.queries + 2 * npaths
            ob["detail"] = {"paths": npaths, "opcode numbers read from opcode310.rs match CPython's": numbers_ok}
            if npaths == 0:
                verdict, reason = BROKEN, "no feasible path (vacuous encoding)"
            if verdict == HELD:
                reason = ("on all %d paths: LOAD_FAST / STORE_FAST of the captured variable's slot become LOAD_DEREF / STORE_DEREF of its cell slot, every other byte is unchanged, "
                          "and nothing changes when the variable is not captured" % npaths)
            elif verdict == VIOLATED:
                want = []
                for j in range(k):
                    op, arg = cex["code"][2 * j], cex["code"][2 * j + 1]
                    if cex["captured"] and arg == cex["old"] and op in (LOAD_FAST, STORE_FAST):
                        want += [LOAD_DEREF if op == LOAD_FAST else STORE_DEREF, cex["new"]]
                    else:
                        want += [op, arg]
                cex["want"] = want
                ob["model"] = cex
                reason = "code %s with the variable in varnames slot %d / cell slot %d%s is rewritten to %s, expected %s" % (
                    cex["code"], cex["old"], cex["new"], "" if cex["captured"] else " (not captured)", cex["got"], want)
                out.append((ob, "__rw(vec!%s, %d, %d, %s)" % (cex["code"], cex["old"], cex["new"], str(cex["captured"]).lower())))
            ob.update(verdict=verdict, reason=reason, solver_s=round(time.time() - t0, 2))
            rep.assumptions += sorted(flow.notes)
        except Unsupported as e:
            ob.update(verdict=INCONCLUSIVE, reason="unsupported-construct: " + str(e)[:200], solver_s=round(time.time() - t0, 2))
        rep.add(ob)
    rep.assumptions += sorted(used) + ["rewrite_captured_fast: slots below 256; LOAD_FAST / STORE_FAST / LOAD_DEREF / STORE_DEREF = 124 / 125 / 136 / 137 (CPython 3.7-3.10)"]
    return out, HELPERS


def judge(ob, got):
    """native replay: the real function must produce the bytes the model says (which differ from the specification)"""
    m = ob["model"]
    ob["native_replay"] = {"call": "rewrite_captured_fast on %s, varnames slot %d, cell slot %d, captured %s" % (m["code"], m["old"], m["new"], m["captured"]), "result": got}
    if got is None:
        ob["replay_note"] = "native replay unavailable"
        return
    real = [int(x) for x in re.findall(r"\d+", got)]
    if real == m["want"]:
        ob["verdict"] = BROKEN
        ob["reason"] = "counterexample did not reproduce natively (the real function gives the expected %s): %s" % (real, ob["reason"])
